//! C13: the method registry behaves as a map; failed registrations change nothing. Replays an operation kind over every
//! choice of its names from a small alphabet (taken / free / equal to each other) against the real RpcModule.
use jsonrpsee_core::server::RpcModule;
use serde_json::{json, Value};
use std::collections::BTreeMap;

type Obs = BTreeMap<String, String>;

fn observe(m: &RpcModule<()>) -> Obs {
    let rt = tokio::runtime::Builder::new_current_thread().enable_all().build().unwrap();
    let mut o = Obs::new();
    let names: Vec<&'static str> = m.method_names().collect();
    for n in names {
        let kind = format!("{:?}", m.method(n).unwrap());
        // sync/async/blocking handlers return their own tag: observe which handler the name dispatches to
        let tag = if kind == "Sync" || kind == "Async" {
            rt.block_on(async { m.call::<_, String>(n, [0u8; 0]).await.unwrap_or_else(|e| format!("err:{e}")) })
        } else {
            String::new()
        };
        o.insert(n.to_string(), format!("{kind}:{tag}"));
    }
    o
}

fn base(pre: &[String]) -> RpcModule<()> {
    let mut m = RpcModule::new(());
    for (i, k) in pre.iter().enumerate() {
        match (k.as_str(), i) {
            ("subscription", 0) => { m.register_subscription("p0", "p0n", "p0u", |_, p, _, _| async move { let _s = p.accept().await?; Ok(()) }).unwrap(); }
            ("subscription", _) => { m.register_subscription("p1", "p1n", "p1u", |_, p, _, _| async move { let _s = p.accept().await?; Ok(()) }).unwrap(); }
            (_, 0) => { m.register_method("p0", |_, _, _| "tag-p0").unwrap(); }
            (_, _) => { m.register_method("p1", |_, _, _| "tag-p1").unwrap(); }
        }
    }
    m
}

const ALPHA: [&str; 6] = ["p0", "p0u", "p1", "p1u", "fresh", "fresh2"];

/// args {op, pre: [kinds]}
pub fn registry(a: &Value) -> Value {
    let op = a["op"].as_str().unwrap_or("method").to_string();
    let pre: Vec<String> = a["pre"].as_array().map(|v| v.iter().map(|x| x.as_str().unwrap().to_string()).collect()).unwrap_or_default();
    let mut bad = vec![];
    let mut runs = 0;
    let with_clone = a["with_clone"].as_bool().unwrap_or(false);
    if op == "merge" {
        // merge `other` (n fresh methods, optionally one sharing a name with self) into self: all-or-nothing
        for n in 1..=3usize {
            for shared in [None, Some("p0"), Some("p1")] {
                let mut m = base(&pre);
                let before = observe(&m);
                if shared.map(|s| !before.contains_key(s)).unwrap_or(false) {
                    continue;
                }
                let mut other = RpcModule::new(());
                let names = ["o0", "o1", "o2"];
                for nm in names.iter().take(n) {
                    other.register_method(nm, |_, _, _| "tag-other").unwrap();
                }
                if let Some(sn) = shared {
                    let sn: &'static str = if sn == "p0" { "p0" } else { "p1" };
                    other.register_method(sn, |_, _, _| "tag-other-shared").unwrap();
                }
                let other_obs = observe(&other);
                let r = m.merge(other).is_ok();
                runs += 1;
                let after = observe(&m);
                let mut expect = before.clone();
                if shared.is_none() {
                    expect.extend(other_obs.clone());
                }
                if r != shared.is_none() || after != expect {
                    bad.push(json!({"merge_other_size": other_obs.len(), "shared": shared, "returned_ok": r, "before": before, "after": after, "expected": expect}));
                }
            }
        }
    }
    for x in ALPHA {
        if op == "merge" {
            break;
        }
        for y in ALPHA {
            let mut m = base(&pre);
            let before = observe(&m);
            // a clone taken before the operation: it must keep its bindings, and must not change what the operation does
            let kept = if with_clone { Some(m.clone()) } else { None };
            let taken = |n: &str| before.contains_key(n);
            let (ok, expect_ok, added): (bool, bool, Vec<(&str, String)>) = match op.as_str() {
                "method" => (m.register_method(x, |_, _, _| "tag-x").is_ok(), !taken(x), vec![(x, "Sync:tag-x".into())]),
                "async" => (m.register_async_method(x, |_, _, _| async { "tag-x" }).is_ok(), !taken(x), vec![(x, "Async:tag-x".into())]),
                "blocking" => (m.register_blocking_method(x, |_, _, _| "tag-x").is_ok(), !taken(x), vec![(x, "Async:tag-x".into())]),
                "subscription" | "subscription_raw" => {
                    let r = m.register_subscription(x, "notif-name", y, |_, p, _, _| async move { let _ = p.accept().await?; Ok(()) }).is_ok();
                    (r, !taken(x) && !taken(y) && x != y, vec![(x, "Subscription:".into()), (y, "Unsubscription:".into())])
                }
                "alias" => {
                    let r = m.register_alias(x, y).is_ok();
                    let tgt = before.get(y).cloned().unwrap_or_default();
                    (r, !taken(x) && taken(y), vec![(x, tgt)])
                }
                "remove" => {
                    let r = m.remove_method(x).is_some();
                    (r, taken(x), vec![])
                }
                _ => (true, true, vec![]),
            };
            runs += 1;
            let after = observe(&m);
            let mut expect = before.clone();
            if expect_ok {
                if op == "remove" { expect.remove(x); } else { for (n, v) in &added { expect.insert(n.to_string(), v.clone()); } }
            }
            if let Some(k) = &kept {
                let kobs = observe(k);
                if kobs != before {
                    bad.push(json!({"x":x,"y":y,"clone_changed":true,"before":before,"clone_after":kobs}));
                }
            }
            if ok != expect_ok || after != expect {
                bad.push(json!({"x":x,"y":y,"returned_ok":ok,"expected_ok":expect_ok,"before":before,"after":after,"expected":expect}));
            }
            if !matches!(op.as_str(), "subscription" | "subscription_raw" | "alias") { break; }
        }
    }
    let violation = !bad.is_empty();
    json!({"scenario":"c13_registry","observed":{"runs":runs,"deviations":bad.iter().take(3).collect::<Vec<_>>()},"violation":violation,
           "why": if violation {"a registry operation failed without being a no-op, succeeded on a taken name, or bound a name to the wrong handler"} else {""}})
}
