//! The journey of a configured value through the builders: whatever is set next, and whichever builder carries the config, the value the user set is the value in force.
//! (ServerConfig's fields are crate-private; its derived Debug output names them.)
use jsonrpsee_core::middleware::RpcServiceBuilder;
use jsonrpsee_server::{BatchRequestConfig, PingConfig, RandomIntegerIdProvider, Server, ServerConfig, ServerConfigBuilder};
use serde_json::{json, Value};

fn own(b: ServerConfigBuilder, field: &str) -> (ServerConfigBuilder, String) {
    match field {
        "max_request_body_size" => (b.max_request_body_size(12345), "max_request_body_size: 12345".into()),
        "max_response_body_size" => (b.max_response_body_size(23456), "max_response_body_size: 23456".into()),
        "max_connections" => (b.max_connections(37), "max_connections: 37".into()),
        "max_subscriptions_per_connection" => (b.max_subscriptions_per_connection(41), "max_subscriptions_per_connection: 41".into()),
        "batch_requests_config" => (b.set_batch_request_config(BatchRequestConfig::Limit(7)), "batch_requests_config: Limit(7)".into()),
        _ => (b.set_message_buffer_capacity(53), "message_buffer_capacity: 53".into()),
    }
}

/// every other setter, applied after the value's own
fn others() -> Vec<(&'static str, fn(ServerConfigBuilder) -> ServerConfigBuilder)> {
    vec![
        ("max_request_body_size", |b| b.max_request_body_size(1111)),
        ("max_response_body_size", |b| b.max_response_body_size(2222)),
        ("max_connections", |b| b.max_connections(3)),
        ("max_subscriptions_per_connection", |b| b.max_subscriptions_per_connection(4)),
        ("batch_requests_config", |b| b.set_batch_request_config(BatchRequestConfig::Disabled)),
        ("custom_tokio_runtime", |b| b.custom_tokio_runtime(tokio::runtime::Handle::current())),
        ("http_only", |b| b.http_only()),
        ("ws_only", |b| b.ws_only()),
        ("message_buffer_capacity", |b| b.set_message_buffer_capacity(5)),
        ("enable_ws_ping", |b| b.enable_ws_ping(PingConfig::new())),
        ("disable_ws_ping", |b| b.disable_ws_ping()),
        ("set_id_provider", |b| b.set_id_provider(RandomIntegerIdProvider)),
        ("set_tcp_no_delay", |b| b.set_tcp_no_delay(false)),
        ("set_keep_alive", |b| b.set_keep_alive(Some(std::time::Duration::from_secs(9)))),
        ("set_keep_alive_timeout", |b| b.set_keep_alive_timeout(std::time::Duration::from_secs(8))),
    ]
}

/// args {field}
pub fn journey(a: &Value) -> Value {
    let field = a["field"].as_str().unwrap_or("max_request_body_size").to_string();
    let rt = tokio::runtime::Builder::new_multi_thread().worker_threads(1).enable_all().build().unwrap();
    rt.block_on(async move {
        let mut why = vec![];
        let (b0, want) = own(ServerConfig::builder(), &field);
        let shown = format!("{:?}", b0.clone().build());
        if !shown.contains(&want) {
            why.push(format!("right after its own setter the config does not hold `{want}`"));
        }
        for (name, f) in others() {
            if name == field || (field == "batch_requests_config" && name == "batch_requests_config") {
                continue;
            }
            let (b, want) = own(ServerConfig::builder(), &field);
            let cfg = f(b).build();
            if !format!("{cfg:?}").contains(&want) {
                why.push(format!("after .{name}(..) the config no longer holds `{want}`"));
            }
        }
        // the server builders carry the config
        let (b, want) = own(ServerConfig::builder(), &field);
        let cfg = b.build();
        let sb = Server::builder().set_config(cfg.clone());
        if !format!("{sb:?}").contains(&want) {
            why.push(format!("Server::builder().set_config(cfg) does not hold `{want}`"));
        }
        let sb = Server::builder().set_config(cfg.clone()).set_rpc_middleware(RpcServiceBuilder::new()).set_http_middleware(tower::ServiceBuilder::new());
        if !format!("{sb:?}").contains(&want) {
            why.push(format!("after the middleware setters the server builder does not hold `{want}`"));
        }
        let tb = Server::builder().set_config(cfg.clone()).to_service_builder();
        if !format!("{tb:?}").contains(&want) {
            why.push(format!("to_service_builder() does not carry `{want}`"));
        }
        let tb = tb.set_rpc_middleware(RpcServiceBuilder::new()).set_http_middleware(tower::ServiceBuilder::new()).connection_id(9);
        if !format!("{tb:?}").contains(&want) {
            why.push(format!("after its setters the service builder does not carry `{want}`"));
        }
        json!({"scenario":"cfg_journey","observed":{"field":field},"violation":!why.is_empty(),"why":why.join(" | ")})
    })
}
