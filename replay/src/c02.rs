//! C02: a batch is answered by one array with exactly one reply per call / invalid entry, none for notifications.
use bytes::Bytes;
use http_body_util::{BodyExt, Full};
use jsonrpsee_core::middleware::RpcServiceBuilder;
use jsonrpsee_server::{http as jhttp, stop_channel, BatchRequestConfig, ConnectionGuard, ConnectionState, Methods, RpcModule, ServerConfig};
use serde_json::{json, Value};
use std::sync::atomic::{AtomicUsize, Ordering};
use std::sync::Arc;

fn methods(hits: Arc<AtomicUsize>) -> Methods {
    let mut m = RpcModule::new(());
    m.register_method("echo", move |p, _, _| {
        hits.fetch_add(1, Ordering::SeqCst);
        p.one::<u64>().unwrap_or(0)
    })
    .unwrap();
    m.into()
}

fn post(body: String, cfg: BatchRequestConfig) -> (u16, String, usize) {
    let rt = tokio::runtime::Builder::new_current_thread().enable_all().build().unwrap();
    rt.block_on(async move {
        let hits = Arc::new(AtomicUsize::new(0));
        let req = http::Request::builder().method("POST").uri("/").header("content-type", "application/json").body(Full::new(Bytes::from(body))).unwrap();
        let (stop, _h) = stop_channel();
        let conn = ConnectionState::new(stop, 0, ConnectionGuard::new(4).try_acquire().unwrap());
        let cfg = ServerConfig::builder().set_batch_request_config(cfg).build();
        let rp = jhttp::call_with_service_builder(req, cfg, conn, methods(hits.clone()), RpcServiceBuilder::new()).await;
        let st = rp.status().as_u16();
        let b = rp.into_body().collect().await.map(|c| c.to_bytes()).unwrap_or_default();
        (st, String::from_utf8_lossy(&b).to_string(), hits.load(Ordering::SeqCst))
    })
}

fn entry(kind: &str, i: usize) -> Value {
    match kind {
        "call" => json!({"jsonrpc":"2.0","id":i,"method":"echo","params":[i]}),
        "notification" => json!({"jsonrpc":"2.0","method":"echo","params":[i]}),
        "invalid-with-id" => json!({"id":i,"foo":"boo"}),
        _ => json!(17),
    }
}

/// expected reply for a batch of kinds (None = no reply body)
fn expected(kinds: &[&str]) -> Option<Value> {
    if kinds.is_empty() {
        return Some(json!({"jsonrpc":"2.0","id":null,"error":{"code":-32600,"message":"Invalid request"}}));
    }
    let mut out = vec![];
    for (i, k) in kinds.iter().enumerate() {
        match *k {
            "call" => out.push(json!({"jsonrpc":"2.0","id":i,"result":i})),
            "notification" => {}
            "invalid-with-id" => out.push(json!({"jsonrpc":"2.0","id":i,"error":{"code":-32600,"message":"Invalid request"}})),
            _ => out.push(json!({"jsonrpc":"2.0","id":null,"error":{"code":-32600,"message":"Invalid request"}})),
        }
    }
    if out.is_empty() { None } else { Some(Value::Array(out)) }
}

/// args {k, limit}: all batches over the four entry kinds up to length 3, under Unlimited, Limit(len-1), Limit(len), Limit(len+1), Disabled
pub fn batches(_a: &Value) -> Value {
    let kinds = ["call", "notification", "invalid-with-id", "non-object"];
    let mut shapes: Vec<Vec<&str>> = vec![vec![]];
    for a in kinds { shapes.push(vec![a]); for b in kinds { shapes.push(vec![a, b]); } }
    for a in kinds { for b in kinds { shapes.push(vec![a, b, "call"]); } }
    let mut bad = vec![];
    for sh in &shapes {
        let body = Value::Array(sh.iter().enumerate().map(|(i, k)| entry(k, i)).collect()).to_string();
        let n = sh.len() as u32;
        let calls = sh.iter().filter(|k| **k == "call").count();
        let mut cfgs = vec![("unlimited", BatchRequestConfig::Unlimited, true), ("limit=len", BatchRequestConfig::Limit(n), true), ("limit=len+1", BatchRequestConfig::Limit(n + 1), true), ("disabled", BatchRequestConfig::Disabled, false)];
        if n >= 1 { cfgs.push(("limit=len-1", BatchRequestConfig::Limit(n - 1), false)); }
        for (name, cfg, served) in cfgs {
            let (st, txt, hits) = post(body.clone(), cfg);
            let got: Option<Value> = serde_json::from_str(&txt).ok();
            let ok = if served {
                let exp = expected(sh);
                hits == calls && match exp { None => txt.is_empty() || got == Some(Value::Null), Some(e) => got == Some(e) }
            } else {
                let code = got.as_ref().and_then(|v| v["error"]["code"].as_i64());
                hits == 0 && got.as_ref().map(|v| v["id"].is_null()).unwrap_or(false) && code == Some(if name == "disabled" { -32005 } else { -32010 })
            };
            if !ok {
                bad.push(json!({"batch": sh, "config": name, "status": st, "reply": txt.chars().take(200).collect::<String>(), "handler_runs": hits}));
            }
        }
    }
    let violation = !bad.is_empty();
    json!({"scenario":"c02_batches","observed":{"shapes":shapes.len(),"deviations":bad.iter().take(4).collect::<Vec<_>>()},"violation":violation,
           "why": if violation {"a batch reply is not one array with exactly one reply per call / invalid entry (or a config gate misfires)"} else {""}})
}
