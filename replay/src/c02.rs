//! C02: a batch is answered by one array with exactly one reply per call / invalid entry, none for notifications.
use bytes::Bytes;
use http_body_util::{BodyExt, Full};
use jsonrpsee_core::middleware::RpcServiceBuilder;
use jsonrpsee_server::{http as jhttp, stop_channel, BatchRequestConfig, ConnectionGuard, ConnectionState, Methods, RpcModule, ServerConfig};
use serde_json::{json, Value};
use std::sync::atomic::{AtomicUsize, Ordering};
use std::sync::Arc;

fn methods(hits: Arc<AtomicUsize>) -> Methods {
    let mut m = RpcModule::new(());
    m.register_method("echo", move |p, _, _| {
        hits.fetch_add(1, Ordering::SeqCst);
        p.one::<u64>().unwrap_or(0)
    })
    .unwrap();
    m.into()
}

fn post(body: String, cfg: BatchRequestConfig) -> (u16, String, usize) {
    let rt = tokio::runtime::Builder::new_current_thread().enable_all().build().unwrap();
    rt.block_on(async move {
        let hits = Arc::new(AtomicUsize::new(0));
        let req = http::Request::builder().method("POST").uri("/").header("content-type", "application/json").body(Full::new(Bytes::from(body))).unwrap();
        let (stop, _h) = stop_channel();
        let conn = ConnectionState::new(stop, 0, ConnectionGuard::new(4).try_acquire().unwrap());
        let cfg = ServerConfig::builder().set_batch_request_config(cfg).build();
        let rp = jhttp::call_with_service_builder(req, cfg, conn, methods(hits.clone()), RpcServiceBuilder::new()).await;
        let st = rp.status().as_u16();
        let b = rp.into_body().collect().await.map(|c| c.to_bytes()).unwrap_or_default();
        (st, String::from_utf8_lossy(&b).to_string(), hits.load(Ordering::SeqCst))
    })
}

fn entry(kind: &str, i: usize) -> Value {
    match kind {
        "call" => json!({"jsonrpc":"2.0","id":i,"method":"echo","params":[i]}),
        "notification" => json!({"jsonrpc":"2.0","method":"echo","params":[i]}),
        "invalid-with-id" => json!({"id":i,"foo":"boo"}),
        "invalid-with-text-id" => json!({"jsonrpc":"2.0","id":format!("e{i}"),"method":1}),
        _ => json!(17),
    }
}

/// expected reply for a batch of kinds (None = no reply body)
fn expected(kinds: &[&str]) -> Option<Value> {
    if kinds.is_empty() {
        return Some(json!({"jsonrpc":"2.0","id":null,"error":{"code":-32600,"message":"Invalid request"}}));
    }
    let mut out = vec![];
    for (i, k) in kinds.iter().enumerate() {
        match *k {
            "call" => out.push(json!({"jsonrpc":"2.0","id":i,"result":i})),
            "notification" => {}
            "invalid-with-id" => out.push(json!({"jsonrpc":"2.0","id":i,"error":{"code":-32600,"message":"Invalid request"}})),
            "invalid-with-text-id" => out.push(json!({"jsonrpc":"2.0","id":format!("e{i}"),"error":{"code":-32600,"message":"Invalid request"}})),
            _ => out.push(json!({"jsonrpc":"2.0","id":null,"error":{"code":-32600,"message":"Invalid request"}})),
        }
    }
    if out.is_empty() { None } else { Some(Value::Array(out)) }
}

/// args {k, limit}: all batches over the five entry kinds up to length 3, under Unlimited, Limit(len-1), Limit(len), Limit(len+1), Disabled
pub fn batches(_a: &Value) -> Value {
    let kinds = ["call", "notification", "invalid-with-id", "invalid-with-text-id", "non-object"];
    let mut shapes: Vec<Vec<&str>> = vec![vec![]];
    for a in kinds { shapes.push(vec![a]); for b in kinds { shapes.push(vec![a, b]); } }
    for a in kinds { for b in kinds { shapes.push(vec![a, b, "call"]); } }
    let mut bad = vec![];
    for sh in &shapes {
        let body = Value::Array(sh.iter().enumerate().map(|(i, k)| entry(k, i)).collect()).to_string();
        let n = sh.len() as u32;
        let calls = sh.iter().filter(|k| **k == "call").count();
        let mut cfgs = vec![("unlimited", BatchRequestConfig::Unlimited, true), ("limit=len", BatchRequestConfig::Limit(n), true), ("limit=len+1", BatchRequestConfig::Limit(n + 1), true), ("disabled", BatchRequestConfig::Disabled, false)];
        if n >= 1 { cfgs.push(("limit=len-1", BatchRequestConfig::Limit(n - 1), false)); }
        for (name, cfg, served) in cfgs {
            let (st, txt, hits) = post(body.clone(), cfg);
            let got: Option<Value> = serde_json::from_str(&txt).ok();
            let ok = if served {
                let exp = expected(sh);
                hits == calls && match exp { None => txt.is_empty() || got == Some(Value::Null), Some(e) => got == Some(e) }
            } else {
                let code = got.as_ref().and_then(|v| v["error"]["code"].as_i64());
                hits == 0 && got.as_ref().map(|v| v["id"].is_null()).unwrap_or(false) && code == Some(if name == "disabled" { -32005 } else { -32010 })
            };
            if !ok {
                bad.push(json!({"batch": sh, "config": name, "status": st, "reply": txt.chars().take(200).collect::<String>(), "handler_runs": hits}));
            }
        }
    }
    let violation = !bad.is_empty();
    json!({"scenario":"c02_batches","observed":{"shapes":shapes.len(),"deviations":bad.iter().take(4).collect::<Vec<_>>()},"violation":violation,
           "why": if violation {"a batch reply is not one array with exactly one reply per call / invalid entry (or a config gate misfires)"} else {""}})
}

/// A batch over WebSocket that contains a subscribe call (and optionally its unsubscribe): every response to a batch entry must be
/// delivered inside the one reply array and nowhere else. args {entries: ["sub" | "call" | "unsub-unknown" | "notification", ...]}
pub fn ws_batch_with_subscription(a: &Value) -> Value {
    use jsonrpsee_server::Server;
    use tokio::net::TcpStream;
    use tokio_util::compat::TokioAsyncReadCompatExt;
    let entries: Vec<String> = a["entries"].as_array().map(|v| v.iter().filter_map(|x| x.as_str().map(|s| s.to_string())).collect()).unwrap_or_else(|| vec!["sub".into(), "call".into()]);
    let rt = tokio::runtime::Builder::new_multi_thread().worker_threads(2).enable_all().build().unwrap();
    rt.block_on(async move {
        let mut m = RpcModule::new(());
        m.register_method("echo", |p, _, _| p.one::<u64>().unwrap_or(0)).unwrap();
        m.register_subscription("sub", "item", "unsub", |_, pending, _, _| async move {
            if let Ok(sink) = pending.accept().await {
                sink.closed().await;
            }
        })
        .unwrap();
        let server = Server::builder().build("127.0.0.1:0").await.unwrap();
        let addr = server.local_addr().unwrap();
        let handle = server.start(m);
        let sock = TcpStream::connect(addr).await.unwrap();
        let host = addr.to_string();
        let mut client = soketto::handshake::Client::new(sock.compat(), &host, "/");
        match client.handshake().await.unwrap() {
            soketto::handshake::ServerResponse::Accepted { .. } => {}
            r => panic!("handshake: {r:?}"),
        }
        let (mut tx, mut rx) = client.into_builder().finish();
        let (ftx, mut frx) = tokio::sync::mpsc::unbounded_channel::<Value>();
        tokio::spawn(async move {
            let mut buf = Vec::new();
            loop {
                buf.clear();
                match rx.receive_data(&mut buf).await {
                    Ok(_) => {
                        if ftx.send(serde_json::from_slice::<Value>(&buf).unwrap_or(Value::Null)).is_err() {
                            break;
                        }
                    }
                    Err(_) => break,
                }
            }
        });
        let batch: Vec<Value> = entries
            .iter()
            .enumerate()
            .map(|(i, k)| match k.as_str() {
                "sub" => json!({"jsonrpc":"2.0","id":i,"method":"sub","params":[]}),
                "unsub-unknown" => json!({"jsonrpc":"2.0","id":i,"method":"unsub","params":[123456789]}),
                "notification" => json!({"jsonrpc":"2.0","method":"echo","params":[i]}),
                _ => json!({"jsonrpc":"2.0","id":i,"method":"echo","params":[i]}),
            })
            .collect();
        let answered: Vec<usize> = entries.iter().enumerate().filter(|(_, k)| k.as_str() != "notification").map(|(i, _)| i).collect();
        tx.send_text(Value::Array(batch).to_string()).await.unwrap();
        tx.flush().await.unwrap();
        let mut frames = vec![];
        while let Ok(Some(v)) = tokio::time::timeout(std::time::Duration::from_millis(400), frx.recv()).await {
            frames.push(v);
        }
        let _ = handle.stop();
        let mut why = vec![];
        let arrays: Vec<&Value> = frames.iter().filter(|f| f.is_array()).collect();
        let outside: Vec<&Value> = frames.iter().filter(|f| !f.is_array() && f.get("id").is_some()).collect();
        if arrays.len() != 1 {
            why.push(format!("{} reply arrays for one batch", arrays.len()));
        } else {
            let ids: Vec<u64> = arrays[0].as_array().unwrap().iter().filter_map(|r| r["id"].as_u64()).collect();
            if ids != answered.iter().map(|i| *i as u64).collect::<Vec<_>>() {
                why.push(format!("the reply array answers ids {ids:?}, the batch's call entries are {answered:?}"));
            }
        }
        if !outside.is_empty() {
            why.push(format!("{} response(s) to batch entries were delivered outside the reply array: {}", outside.len(), outside[0]));
        }
        json!({"scenario":"c02_ws_batch_with_subscription","observed":{"frames":frames.len(),"entries":entries},"violation":!why.is_empty(),"why":why.join(" | ")})
    })
}

/// Over WebSocket: a batch made of notifications only, and a single notification, get no frame at all; the next call's answer is the next frame.
pub fn ws_notification_batch(_a: &Value) -> Value {
    use jsonrpsee_server::Server;
    use tokio::net::TcpStream;
    use tokio_util::compat::TokioAsyncReadCompatExt;
    let rt = tokio::runtime::Builder::new_multi_thread().worker_threads(2).enable_all().build().unwrap();
    rt.block_on(async move {
        let mut m = RpcModule::new(());
        m.register_method("echo", |p, _, _| p.one::<u64>().unwrap_or(0)).unwrap();
        let server = Server::builder().build("127.0.0.1:0").await.unwrap();
        let addr = server.local_addr().unwrap();
        let handle = server.start(m);
        let sock = TcpStream::connect(addr).await.unwrap();
        let host = addr.to_string();
        let mut client = soketto::handshake::Client::new(sock.compat(), &host, "/");
        match client.handshake().await.unwrap() {
            soketto::handshake::ServerResponse::Accepted { .. } => {}
            r => panic!("handshake: {r:?}"),
        }
        let (mut tx, mut rx) = client.into_builder().finish();
        let (ftx, mut frx) = tokio::sync::mpsc::unbounded_channel::<String>();
        tokio::spawn(async move {
            let mut buf = Vec::new();
            loop {
                buf.clear();
                match rx.receive_data(&mut buf).await {
                    Ok(_) => {
                        if ftx.send(String::from_utf8_lossy(&buf).to_string()).is_err() {
                            break;
                        }
                    }
                    Err(_) => break,
                }
            }
        });
        let mut why = vec![];
        let silent = [
            r#"[{"jsonrpc":"2.0","method":"echo","params":[1]},{"jsonrpc":"2.0","method":"echo","params":[2]}]"#,
            r#"[{"jsonrpc":"2.0","method":"echo","params":[1]}]"#,
            r#"{"jsonrpc":"2.0","method":"echo","params":[3]}"#,
            r#"[{"jsonrpc":"2.0","method":"nope"}]"#,
        ];
        for (i, msg) in silent.iter().enumerate() {
            let _ = tx.send_text(*msg).await;
            let _ = tx.flush().await;
            if let Ok(Some(frame)) = tokio::time::timeout(std::time::Duration::from_millis(300), frx.recv()).await {
                why.push(format!("{msg} was answered with the frame {frame:?}"));
            }
            // the connection keeps serving, and the next frame is the next call's answer
            let call = format!(r#"{{"jsonrpc":"2.0","id":"k{i}","method":"echo","params":[{i}]}}"#);
            let _ = tx.send_text(call).await;
            let _ = tx.flush().await;
            match tokio::time::timeout(std::time::Duration::from_secs(3), frx.recv()).await {
                Ok(Some(frame)) => {
                    let v: Value = serde_json::from_str(&frame).unwrap_or(Value::Null);
                    if v["id"] != json!(format!("k{i}")) || v["result"] != json!(i) {
                        why.push(format!("after {msg} the next frame is {frame:?}"));
                    }
                }
                _ => why.push(format!("after {msg} the connection stopped answering")),
            }
        }
        let _ = handle.stop();
        json!({"scenario":"c02_ws_notification_batch","observed":{"messages":silent.len()},"violation":!why.is_empty(),"why":why.join(" | ")})
    })
}
