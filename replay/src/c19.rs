//! C19: the HTTP answer depends on the body bytes only (not on chunking), and only JSON POSTs reach RPC.
use bytes::Bytes;
use http_body::Frame;
use http_body_util::{BodyExt, StreamBody};
use jsonrpsee_core::middleware::RpcServiceBuilder;
use jsonrpsee_server::{http as jhttp, stop_channel, ConnectionGuard, ConnectionState, Methods, RpcModule, ServerConfig};
use serde_json::{json, Value};
use std::sync::atomic::{AtomicUsize, Ordering};
use std::sync::Arc;

fn methods(hits: Arc<AtomicUsize>) -> Methods {
    let mut m = RpcModule::new(());
    m.register_method("echo", move |p, _, _| {
        hits.fetch_add(1, Ordering::SeqCst);
        p.parse::<Vec<String>>().map(|v| v.join("|")).unwrap_or_default()
    })
    .unwrap();
    m.into()
}

/// run one request whose body is delivered as exactly these frames; returns (status, body text, handler runs)
pub fn request(frames: Vec<Vec<u8>>, method: &str, content_type: Option<&str>, content_length: bool, limit: u32) -> (u16, String, usize) {
    let rt = tokio::runtime::Builder::new_current_thread().enable_all().build().unwrap();
    rt.block_on(async move {
        let hits = Arc::new(AtomicUsize::new(0));
        let total: usize = frames.iter().map(|f| f.len()).sum();
        let stream = futures_util::stream::iter(frames.into_iter().map(|f| Ok::<_, std::convert::Infallible>(Frame::data(Bytes::from(f)))));
        let body = StreamBody::new(stream);
        let mut b = http::Request::builder().method(method).uri("/");
        if let Some(ct) = content_type {
            b = b.header("content-type", ct);
        }
        if content_length {
            b = b.header("content-length", total.to_string());
        }
        let req = b.body(body).unwrap();
        let (stop, _handle) = stop_channel();
        let guard = ConnectionGuard::new(10);
        let conn = ConnectionState::new(stop, 0, guard.try_acquire().unwrap());
        let cfg = ServerConfig::builder().max_request_body_size(limit).build();
        let rp = jhttp::call_with_service_builder(req, cfg, conn, methods(hits.clone()), RpcServiceBuilder::new()).await;
        let status = rp.status().as_u16();
        let bytes = rp.into_body().collect().await.map(|c| c.to_bytes()).unwrap_or_default();
        (status, String::from_utf8_lossy(&bytes).to_string(), hits.load(Ordering::SeqCst))
    })
}

fn u(v: &Value) -> u64 {
    match v { Value::String(s) => s.parse().unwrap_or(0), x => x.as_u64().unwrap_or(0) }
}

/// args {chunks:[{len,ws,first}], content_length, limit}: the solver's abstract chunks are turned into bytes (a JSON-RPC call is laid over them
/// when they allow it) and delivered split vs as one chunk.
pub fn chunking(a: &Value) -> Value {
    let limit = u(&a["limit"]).clamp(1, 1 << 20) as u32;
    let cl = a["content_length"].as_bool().unwrap_or(false);
    let mut frames: Vec<Vec<u8>> = vec![];
    for c in a["chunks"].as_array().cloned().unwrap_or_default() {
        let (len, ws, first) = (u(&c["len"]).min(4096) as usize, u(&c["ws"]) as usize, u(&c["first"]) as u8);
        let ws = ws.min(len);
        let mut f = vec![b' '; ws];
        if ws < len {
            f.push(first);
            f.extend(std::iter::repeat(b'a').take(len - ws - 1));
        }
        frames.push(f);
    }
    let mut cases: Vec<Vec<Vec<u8>>> = vec![frames];
    // the same abstract shape with a real call laid over it: leading chunk(s) of whitespace, then the call split in two
    let call = br#"{"jsonrpc":"2.0","id":1,"method":"echo","params":["hello  big","world"]}"#.to_vec();
    cases.push(vec![b" ".to_vec(), call.clone()]);
    cases.push(vec![vec![], call.clone()]);
    cases.push(vec![b"\r\n \t".to_vec(), call[..20].to_vec(), call[20..].to_vec()]);
    cases.push(vec![call[..40].to_vec(), call[40..].to_vec()]);
    let sp = call.windows(2).position(|w| w == b"  ").unwrap();      // boundary right before whitespace inside a JSON string
    cases.push(vec![call[..sp].to_vec(), call[sp..].to_vec()]);
    cases.push(vec![call[..sp + 1].to_vec(), vec![], call[sp + 1..].to_vec()]);
    cases.push(vec![b"  ".to_vec(), call[..sp].to_vec(), call[sp..].to_vec()]);
    let mut bad = vec![];
    for frames in cases {
        let whole: Vec<u8> = frames.concat();
        let split = request(frames.clone(), "POST", Some("application/json"), cl, limit);
        let single = request(vec![whole], "POST", Some("application/json"), cl, limit);
        if split.0 != single.0 || split.1 != single.1 || split.2 != single.2 {
            bad.push(json!({"frames": frames.iter().map(|f| String::from_utf8_lossy(f).to_string()).collect::<Vec<_>>(), "split": [split.0, split.1, split.2], "single": [single.0, single.1, single.2]}));
        }
    }
    let violation = !bad.is_empty();
    json!({"scenario":"c19_chunking","observed":{"deviations":bad.iter().take(3).collect::<Vec<_>>()},"violation":violation,
           "why": if violation {"the same body bytes get a different answer when split into chunks"} else {""}})
}

/// leading whitespace (any of space, tab, LF, FF, CR, up to 127 bytes) before a valid call does not change the answer
pub fn leading_ws(_a: &Value) -> Value {
    let call = br#"{"jsonrpc":"2.0","id":1,"method":"echo","params":["x"]}"#.to_vec();
    let base = request(vec![call.clone()], "POST", Some("application/json"), true, 10000);
    let mut bad = vec![];
    for lead in ["\r", "\r\n", "\n\r", " \r\n\t", "\t", "\n", "\x0c", "\r\r\r\r", &" ".repeat(127)] {
        let mut b = lead.as_bytes().to_vec();
        b.extend(&call);
        let r = request(vec![b], "POST", Some("application/json"), true, 10000);
        if r != base {
            bad.push(json!({"lead": format!("{lead:?}"), "got": [r.0, r.1], "expected": [base.0, base.1.clone()]}));
        }
    }
    let violation = !bad.is_empty();
    json!({"scenario":"c19_leading_ws","observed":{"deviations":bad},"violation":violation,"why": if violation {"leading JSON whitespace changes the HTTP answer"} else {""}})
}

/// the six accepted spellings in any letter case are accepted; near misses get 415; other methods 405; no handler runs for those
pub fn content_types(_a: &Value) -> Value {
    let call = br#"{"jsonrpc":"2.0","id":1,"method":"echo","params":["x"]}"#.to_vec();
    let ok = ["application/json", "application/json; charset=utf-8", "application/json;charset=utf-8", "application/json-rpc", "application/json-rpc;charset=utf-8", "application/json-rpc; charset=utf-8"];
    let mut bad = vec![];
    for ct in ok {
        for variant in [ct.to_string(), ct.to_uppercase(), ct.replace("utf", "UTF"), ct.replace("json", "JSON"), ct.replace("charset", "Charset")] {
            let r = request(vec![call.clone()], "POST", Some(&variant), true, 10000);
            if r.0 != 200 || r.2 != 1 {
                bad.push(json!({"content_type": variant, "status": r.0, "handler_runs": r.2, "expected": 200}));
            }
        }
    }
    for ct in ["text/plain", "application/jsonx", "application/json; charset=utf-16", "application/json ", "application/json;  charset=utf-8", ""] {
        let r = request(vec![call.clone()], "POST", Some(ct), true, 10000);
        if r.0 != 415 || r.2 != 0 {
            bad.push(json!({"content_type": ct, "status": r.0, "handler_runs": r.2, "expected": 415}));
        }
    }
    let r = request(vec![call.clone()], "POST", None, true, 10000);
    if r.0 != 415 || r.2 != 0 { bad.push(json!({"content_type": null, "status": r.0})); }
    // any other method is answered 405 - whatever its content type (also: none, or one that would be refused for a POST)
    for m in ["GET", "PUT", "DELETE", "PATCH", "HEAD", "OPTIONS"] {
        for ct in [Some("application/json"), Some("text/plain"), Some(""), None] {
            let r = request(vec![call.clone()], m, ct, true, 10000);
            if r.0 != 405 || r.2 != 0 {
                bad.push(json!({"method": m, "content_type": ct, "status": r.0, "handler_runs": r.2, "expected": 405}));
            }
        }
    }
    let violation = !bad.is_empty();
    json!({"scenario":"c19_content_types","observed":{"deviations":bad.iter().take(5).collect::<Vec<_>>()},"violation":violation,
           "why": if violation {"method / content-type gate deviates"} else {""}})
}

/// the same bytes with a Content-Length header and without one (as a chunked transfer has it): same answer, in particular right at the size limit
pub fn content_length(_a: &Value) -> Value {
    let call = br#"{"jsonrpc":"2.0","id":1,"method":"echo","params":["hello","world"]}"#.to_vec();
    let n = call.len() as u32;
    let mut bad = vec![];
    for limit in [n - 1, n, n + 1, 10 * n] {
        for frames in [vec![call.clone()], vec![call[..10].to_vec(), call[10..].to_vec()]] {
            let with = request(frames.clone(), "POST", Some("application/json"), true, limit);
            let without = request(frames.clone(), "POST", Some("application/json"), false, limit);
            if with != without {
                bad.push(json!({"limit": limit, "body_len": n, "frames": frames.len(), "with_header": [with.0, with.1, with.2], "without_header": [without.0, without.1, without.2]}));
            }
            let want_ok = n <= limit;
            if (without.0 == 200) != want_ok {
                bad.push(json!({"limit": limit, "body_len": n, "status_without_header": without.0}));
            }
        }
    }
    let violation = !bad.is_empty();
    json!({"scenario":"c19_content_length","observed":{"deviations":bad.iter().take(4).collect::<Vec<_>>()},"violation":violation,
           "why": if violation {"the same body bytes get a different answer depending on the Content-Length header"} else {""}})
}

/// The GET-proxy middleware rewrites `GET <configured path>` only: every other method on that path, and everything on other paths, reaches the inner service as it came.
pub fn proxy_get(_a: &Value) -> Value {
    use jsonrpsee_server::middleware::http::ProxyGetRequestLayer;
    use jsonrpsee_server::{HttpBody, HttpRequest, HttpResponse};
    use std::sync::Mutex;
    use tower::{Layer, Service, ServiceExt};
    let seen: Arc<Mutex<Vec<(String, String, Option<String>)>>> = Default::default();
    let s2 = seen.clone();
    let inner = tower::service_fn(move |req: HttpRequest<HttpBody>| {
        let s = s2.clone();
        async move {
            let ct = req.headers().get("content-type").and_then(|v| v.to_str().ok()).map(|v| v.to_string());
            s.lock().unwrap().push((req.method().to_string(), req.uri().path().to_string(), ct));
            Ok::<_, std::convert::Infallible>(HttpResponse::new(HttpBody::from(r#"{"jsonrpc":"2.0","id":0,"result":"ok"}"#)))
        }
    });
    let layer = ProxyGetRequestLayer::new([("/health", "system_health")]).expect("valid path");
    let mut svc = layer.layer(inner);
    let rt = tokio::runtime::Builder::new_current_thread().enable_all().build().unwrap();
    let mut why = vec![];
    for (method, path, ct) in [("GET", "/health", None), ("PUT", "/health", Some("text/plain")), ("DELETE", "/health", None), ("POST", "/health", Some("text/plain")),
                               ("HEAD", "/health", None), ("GET", "/other", None), ("POST", "/", Some("application/json"))] {
        let mut b = http::Request::builder().method(method).uri(path);
        if let Some(ct) = ct {
            b = b.header("content-type", ct);
        }
        let req = b.body(HttpBody::from("the original body")).unwrap();
        seen.lock().unwrap().clear();
        let _ = rt.block_on(async { <_ as ServiceExt<HttpRequest<HttpBody>>>::ready(&mut svc).await.unwrap().call(req).await });
        let got = seen.lock().unwrap().first().cloned();
        let want = if method == "GET" && path == "/health" {
            ("POST".to_string(), "/".to_string(), Some("application/json".to_string()))
        } else {
            (method.to_string(), path.to_string(), ct.map(|c| c.to_string()))
        };
        if got.as_ref() != Some(&want) {
            why.push(format!("{method} {path} (content type {ct:?}) reached the inner service as {got:?}, expected {want:?}"));
        }
    }
    json!({"scenario":"c19_proxy_get","observed":{},"violation":!why.is_empty(),"why":why.join(" | ")})
}
