//! Native replay of solver models against the real jsonrpsee code (an ordinary program: tokio etc. allowed).
//! usage: jv-replay <scenario> '<json args>'
//! prints one JSON line {"scenario":..,"observed":{..},"violation":bool,"why":".."}; exit 0 = no violation, 1 = violation, 3 = bad scenario
use serde_json::{json, Value};

mod c01;
mod cfg;
mod c06;
mod c07;
mod c02;
mod c03;
mod c04;
mod c05;
mod c08;
mod c09;
mod c13;
mod c14;
mod c15;
mod c16;
mod c17;
mod c10;
mod c11;
mod c12;
mod c18;
mod memclient;
mod c19;
mod c20;

fn main() {
    let a: Vec<String> = std::env::args().collect();
    if a.len() < 3 {
        eprintln!("usage: jv-replay <scenario> <json>");
        std::process::exit(3);
    }
    let args: Value = serde_json::from_str(&a[2]).expect("json args");
    // a JSON array of argument objects runs the scenario once per element
    let list: Vec<Value> = match args {
        Value::Array(v) => v,
        v => vec![v],
    };
    let mut any = false;
    for args in &list {
        let out = run(&a[1], args);
        any |= out["violation"].as_bool().unwrap_or(false);
        println!("{}", out);
    }
    std::process::exit(if any { 1 } else { 0 });
}

fn run(name: &str, args: &Value) -> Value {
    match name {
        "c01_messages" => c01::messages(args),
        "c01_blocking_panic" => c01::blocking_panic(args),
        "c06_history" => c06::history(args),
        "c06_inprocess" => c06::inprocess(args),
        "c06_sink_handed_over" => c06::sink_handed_over(args),
        "c06_accept_fails" => c06::accept_fails(args),
        "c07_ws" => c07::ws(args),
        "c07_http" => c07::http(args),
        "c19_chunking" => c19::chunking(args),
        "c19_leading_ws" => c19::leading_ws(args),
        "c19_proxy_get" => c19::proxy_get(args),
        "c19_content_length" => c19::content_length(args),
        "c19_content_types" => c19::content_types(args),
        "c20_script" => c20::script(args),
        "c20_tuple" => c20::tuple(args),
        "c18_lifecycle" => c18::lifecycle(args),
        "c10_graceful_stop" => c10::graceful_stop(args),
        "c11_limits" => c11::limits(args),
        "c11_inactive_peer" => c11::inactive_peer(args),
        "c11_http_peer_gone" => c11::http_peer_gone(args),
        "c12_ws_batch" => c12::ws_batch(args),
        "cfg_journey" => cfg::journey(args),
        "c12_two_batches" => c12::two_batches(args),
        "c12_ws_batch_order" => c12::ws_batch_order(args),
        "c12_http_batch" => c12::http_batch(args),
        "c02_batches" => c02::batches(args),
        "c02_ws_notification_batch" => c02::ws_notification_batch(args),
        "c02_ws_batch_with_subscription" => c02::ws_batch_with_subscription(args),
        "c03_fast_reply" => c03::fast_reply(args),
        "c03_subid_collision" => c03::subid_collision(args),
        "c03_mixed_frame" => c03::mixed_frame(args),
        "c03_late_reply" => c03::late_reply(args),
        "c03_routing" => c03::routing(args),
        "c03_id_kind" => c03::id_kind(args),
        "c04_notifications" => c04::notifications(args),
        "c05_array_vs_single" => c05::array_vs_single(args),
        "c05_close_in_array" => c05::close_in_array(args),
        "c05_drop_full_queue" => c05::drop_full_queue(args),
        "c05_close_reason" => c05::close_reason(args),
        "c13_registry" => c13::registry(args),
        "c17_roundtrip" => c17::roundtrip(args),
        "c15_response" => c15::response(args),
        "c15_serialize" => c15::serialize(args),
        "c15_parse" => c15::parse(args),
        "c16_sequence" => c16::sequence(args),
        "c16_whole" => c16::whole(args),
        "c14_authority_sources" => c14::authority_sources(args),
        "c14_ports" => c14::ports(args),
        "c14_single_entry" => c14::single_entry(args),
        "c09_server_bytes" => c09::server_bytes(args),
        "c09_cause_for_everyone" => c09::cause_for_everyone(args),
        "c09_send_fails_on_unsubscribe" => c09::send_fails_on_unsubscribe(args),
        "c08_limits_apart" => c07::limits_apart(args),
        "c08_append" => c08::append(args),
        "c08_batch_total" => c08::batch_total(args),
        "c08_response" => c08::response(args),
        "c08_error_payload" => c08::error_payload(args),
        other => {
            eprintln!("unknown scenario {other}");
            std::process::exit(3);
        }
    }
}

pub fn u(v: &Value, k: &str) -> u64 {
    match &v[k] {
        Value::String(s) => s.parse().expect("u64"),
        x => x.as_u64().expect("u64"),
    }
}
