//! In-memory transport for the async client: the test plays the server.
use jsonrpsee_core::client::{Client, ClientBuilder, ReceivedMessage, TransportReceiverT, TransportSenderT};
use tokio::sync::mpsc;

#[derive(Debug)]
pub struct Closed;
impl std::fmt::Display for Closed {
    fn fmt(&self, f: &mut std::fmt::Formatter<'_>) -> std::fmt::Result {
        write!(f, "in-memory transport closed")
    }
}
impl std::error::Error for Closed {}

pub struct MemSender(pub mpsc::UnboundedSender<String>);
impl TransportSenderT for MemSender {
    type Error = Closed;
    async fn send(&mut self, msg: String) -> Result<(), Closed> {
        self.0.send(msg).map_err(|_| Closed)
    }
}

pub struct MemReceiver(pub mpsc::UnboundedReceiver<String>);
impl TransportReceiverT for MemReceiver {
    type Error = Closed;
    async fn receive(&mut self) -> Result<ReceivedMessage, Closed> {
        match self.0.recv().await {
            Some(s) => Ok(ReceivedMessage::Text(s)),
            None => Err(Closed),
        }
    }
}

/// what the "server" (the test) holds: messages the client wrote, and a way to push messages to the client
pub struct ServerSide {
    pub from_client: mpsc::UnboundedReceiver<String>,
    pub to_client: mpsc::UnboundedSender<String>,
}

impl ServerSide {
    pub async fn next_request(&mut self) -> Option<serde_json::Value> {
        match tokio::time::timeout(std::time::Duration::from_secs(3), self.from_client.recv()).await {
            Ok(Some(s)) => serde_json::from_str(&s).ok(),
            _ => None,
        }
    }
    pub async fn try_next_request(&mut self, ms: u64) -> Option<serde_json::Value> {
        match tokio::time::timeout(std::time::Duration::from_millis(ms), self.from_client.recv()).await {
            Ok(Some(s)) => serde_json::from_str(&s).ok(),
            _ => None,
        }
    }
    pub fn push(&self, v: serde_json::Value) {
        let _ = self.to_client.send(v.to_string());
    }
    pub fn push_raw(&self, s: &str) {
        let _ = self.to_client.send(s.to_string());
    }
}

pub fn client(builder: ClientBuilder) -> (Client, ServerSide) {
    let (c2s_tx, c2s_rx) = mpsc::unbounded_channel();
    let (s2c_tx, s2c_rx) = mpsc::unbounded_channel();
    let client = builder.build_with_tokio(MemSender(c2s_tx), MemReceiver(s2c_rx));
    (client, ServerSide { from_client: c2s_rx, to_client: s2c_tx })
}

/// a sender the test can stall: `send` waits while the test holds the write half of the gate
pub struct GatedSender {
    pub tx: mpsc::UnboundedSender<String>,
    pub gate: std::sync::Arc<tokio::sync::RwLock<()>>,
}
impl TransportSenderT for GatedSender {
    type Error = Closed;
    async fn send(&mut self, msg: String) -> Result<(), Closed> {
        let _g = self.gate.read().await;
        self.tx.send(msg).map_err(|_| Closed)
    }
}

pub fn gated_client(builder: ClientBuilder) -> (Client, ServerSide, std::sync::Arc<tokio::sync::RwLock<()>>) {
    let (c2s_tx, c2s_rx) = mpsc::unbounded_channel();
    let (s2c_tx, s2c_rx) = mpsc::unbounded_channel();
    let gate = std::sync::Arc::new(tokio::sync::RwLock::new(()));
    let client = builder.build_with_tokio(GatedSender { tx: c2s_tx, gate: gate.clone() }, MemReceiver(s2c_rx));
    (client, ServerSide { from_client: c2s_rx, to_client: s2c_tx }, gate)
}
