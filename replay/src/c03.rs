//! C03: a call is registered before it reaches the wire, so even a reply that arrives while `send` is still in progress finds it.
use crate::memclient::{Closed, MemReceiver};
use jsonrpsee_core::client::{ClientBuilder, ClientT, TransportSenderT};
use jsonrpsee_core::rpc_params;
use serde_json::{json, Value};
use tokio::sync::mpsc;

/// a transport whose `send` hands the server's reply to the receiving half first and only then returns (slow flush)
struct EchoFirstSender {
    to_client: mpsc::UnboundedSender<String>,
    delay_ms: u64,
}
impl TransportSenderT for EchoFirstSender {
    type Error = Closed;
    async fn send(&mut self, msg: String) -> Result<(), Closed> {
        let v: Value = serde_json::from_str(&msg).unwrap_or(Value::Null);
        if v.is_object() && v.get("id").is_some() {
            let _ = self.to_client.send(json!({"jsonrpc":"2.0","id":v["id"],"result":format!("answer-for-{}", v["id"])}).to_string());
        }
        tokio::time::sleep(std::time::Duration::from_millis(self.delay_ms)).await;
        Ok(())
    }
}

/// args {calls: n, delay_ms}
pub fn fast_reply(a: &Value) -> Value {
    let n = a.get("calls").and_then(|v| v.as_u64()).unwrap_or(2);
    let delay_ms = a.get("delay_ms").and_then(|v| v.as_u64()).unwrap_or(50);
    let rt = tokio::runtime::Builder::new_multi_thread().worker_threads(2).enable_all().build().unwrap();
    rt.block_on(async move {
        let (s2c_tx, s2c_rx) = mpsc::unbounded_channel();
        let client = ClientBuilder::default()
            .request_timeout(std::time::Duration::from_secs(3))
            .build_with_tokio(EchoFirstSender { to_client: s2c_tx, delay_ms }, MemReceiver(s2c_rx));
        let mut outcomes = vec![];
        let mut bad = false;
        for i in 0..n {
            match client.request::<String, _>("m", rpc_params![]).await {
                Ok(v) => {
                    if v != format!("answer-for-{i}") {
                        bad = true;
                    }
                    outcomes.push(v)
                }
                Err(e) => {
                    bad = true;
                    outcomes.push(format!("Err({e})"))
                }
            }
        }
        json!({"scenario":"c03_fast_reply","observed":{"outcomes":outcomes},"violation":bad,
               "why": if bad {"a call did not complete with the response bearing its id although that response arrived"} else {""}})
    })
}


/// the server hands out a subscription id that another active subscription of this client already holds
pub fn subid_collision(_a: &Value) -> Value {
    use crate::memclient::client;
    use jsonrpsee_core::client::{Subscription, SubscriptionClientT};
    let rt = tokio::runtime::Builder::new_multi_thread().worker_threads(2).enable_all().build().unwrap();
    rt.block_on(async move {
        let (c, mut s) = client(ClientBuilder::default().request_timeout(std::time::Duration::from_secs(2)));
        let c = std::sync::Arc::new(c);
        let c1 = c.clone();
        let h = tokio::spawn(async move { c1.subscribe::<String, _>("sub", rpc_params![], "unsub").await });
        let rq = s.next_request().await.unwrap();
        s.push(json!({"jsonrpc":"2.0","id":rq["id"],"result":"S"}));
        let mut a: Subscription<String> = h.await.unwrap().expect("first subscription accepted");
        let c2 = c.clone();
        let h = tokio::spawn(async move { c2.subscribe::<String, _>("sub", rpc_params![], "unsub").await });
        let rq = s.next_request().await.unwrap();
        s.push(json!({"jsonrpc":"2.0","id":rq["id"],"result":"S"}));
        // the client's request timeout is 2 s: the second subscribe must be over well within 6 s, whatever its outcome
        let second = match tokio::time::timeout(std::time::Duration::from_secs(6), h).await {
            Ok(r) => r.unwrap(),
            Err(_) => {
                return json!({"scenario":"c03_subid_collision","observed":{"second_subscribe":"still pending after 6 s","connected":c.is_connected()},"violation":true,
                              "why":"a subscribe call answered with a subscription id already in use stays pending beyond the request timeout"});
            }
        };
        let second_accepted = second.is_ok();
        s.push(json!({"jsonrpc":"2.0","method":"sub","params":{"subscription":"S","result":"for-A"}}));
        let got = tokio::time::timeout(std::time::Duration::from_millis(500), a.next()).await;
        let a_got = matches!(got, Ok(Some(Ok(ref v))) if v == "for-A");
        #[cfg(jsonrpsee_verif)]
        let sizes = { drop(a); drop(second); tokio::time::sleep(std::time::Duration::from_millis(100)).await; c.verif_table_sizes() };
        #[cfg(not(jsonrpsee_verif))]
        let sizes = (0usize, 0usize, 0usize, 0usize);
        let violation = second_accepted || !a_got;
        json!({"scenario":"c03_subid_collision","observed":{"second_accepted":second_accepted,"first_got_its_notification":a_got,"sizes":[sizes.0,sizes.1,sizes.2,sizes.3]},
               "violation":violation,"why": if violation {"a second subscription captured the id (and notifications) of an active one"} else {""}})
    })
}

/// responses that share an array frame with subscription notifications (one of which finds its stream's buffer full) must still
/// complete their calls, each with the response bearing its own id
pub fn mixed_frame(_a: &Value) -> Value {
    use crate::memclient::client;
    use jsonrpsee_core::client::{Subscription, SubscriptionClientT};
    let rt = tokio::runtime::Builder::new_multi_thread().worker_threads(2).enable_all().build().unwrap();
    rt.block_on(async move {
        let (c, mut s) = client(ClientBuilder::default().max_buffer_capacity_per_subscription(1).request_timeout(std::time::Duration::from_secs(2)));
        let c = std::sync::Arc::new(c);
        let c0 = c.clone();
        let h = tokio::spawn(async move { c0.subscribe::<String, _>("sub", rpc_params![], "unsub").await });
        let rq = s.next_request().await.unwrap();
        s.push(json!({"jsonrpc":"2.0","id":rq["id"],"result":"S"}));
        let _unpolled: Subscription<String> = h.await.unwrap().expect("subscription accepted");
        let mut outcomes = vec![];
        let mut bad = false;
        for layout in 0..2 {
            // servers answer a batch with one array; notifications may be packed into the same frame
            let cb = c.clone();
            let hb = tokio::spawn(async move {
                let mut b = jsonrpsee_core::params::BatchRequestBuilder::new();
                b.insert("m", rpc_params![]).unwrap();
                b.insert("m", rpc_params![]).unwrap();
                cb.batch_request::<String>(b).await
            });
            let Some(rq) = s.next_request().await else {
                return json!({"scenario":"c03_mixed_frame","observed":{"outcomes":outcomes,"layout":layout,"connected":c.is_connected()},"violation":true,"why":"the client stopped sending calls"});
            };
            let ids: Vec<Value> = rq.as_array().map(|a| a.iter().map(|e| e["id"].clone()).collect()).unwrap_or_default();
            if ids.len() != 2 {
                return json!({"scenario":"c03_mixed_frame","observed":{"wire":rq},"violation":true,"why":"the batch did not reach the wire as two entries"});
            }
            let n = |x: &str| json!({"jsonrpc":"2.0","method":"sub","params":{"subscription":"S","result":x}});
            let a1 = json!({"jsonrpc":"2.0","id":ids[0],"result":format!("answer-for-{}", ids[0])});
            let a2 = json!({"jsonrpc":"2.0","id":ids[1],"result":format!("answer-for-{}", ids[1])});
            let frame = if layout == 0 { vec![n("n1"), n("n2"), a2.clone(), a1.clone()] } else { vec![a2.clone(), n("n3"), a1.clone(), n("n4")] };
            s.push(Value::Array(frame));
            match hb.await.unwrap() {
                Ok(rs) => {
                    let got: Vec<String> = rs.into_iter().map(|e| e.unwrap_or_else(|e| format!("Err({e})"))).collect();
                    if got != vec![format!("answer-for-{}", ids[0]), format!("answer-for-{}", ids[1])] {
                        bad = true;
                    }
                    outcomes.push(json!(got));
                }
                Err(e) => {
                    bad = true;
                    outcomes.push(json!(format!("Err({e})")));
                }
            }
            // the unsubscribe the lagging subscription causes is acknowledged
            while let Some(rq) = s.try_next_request(200).await {
                s.push(json!({"jsonrpc":"2.0","id":rq["id"],"result":true}));
            }
        }
        json!({"scenario":"c03_mixed_frame","observed":{"outcomes":outcomes},"violation":bad,
               "why": if bad {"a response that shared an array frame with notifications did not complete its call with its own value"} else {""}})
    })
}

/// A response that arrives after its caller gave up (timed out / was cancelled) completes nothing and disturbs nothing: the next call still gets its own response
/// and the client stays connected.
pub fn late_reply(_a: &Value) -> Value {
    use crate::memclient::client;
    let rt = tokio::runtime::Builder::new_multi_thread().worker_threads(2).enable_all().build().unwrap();
    rt.block_on(async move {
        let (c, mut s) = client(ClientBuilder::default().request_timeout(std::time::Duration::from_millis(300)));
        let c = std::sync::Arc::new(c);
        let ca = c.clone();
        let ha = tokio::spawn(async move { ca.request::<String, _>("a", rpc_params![]).await });
        let ra = s.next_request().await.unwrap();
        let a_out = ha.await.unwrap(); // times out: nobody answered
        let cb = c.clone();
        let hb = tokio::spawn(async move { cb.request::<String, _>("b", rpc_params![]).await });
        let rb = s.next_request().await.unwrap();
        // the late answer to A, then the answer to B
        s.push(json!({"jsonrpc":"2.0","id":ra["id"],"result":"answer-for-a"}));
        tokio::time::sleep(std::time::Duration::from_millis(50)).await;
        s.push(json!({"jsonrpc":"2.0","id":rb["id"],"result":"answer-for-b"}));
        let b_out = hb.await.unwrap();
        let connected = c.is_connected();
        let mut why = vec![];
        if a_out.is_ok() {
            why.push("the unanswered call did not time out".to_string());
        }
        if !matches!(&b_out, Ok(v) if v == "answer-for-b") {
            why.push(format!("after a late answer to a call nobody waits for, the next call got {:?}", b_out.as_ref().map_err(|e| e.to_string())));
        }
        if !connected {
            why.push("the client went down because of a late answer".to_string());
        }
        json!({"scenario":"c03_late_reply","observed":{"b":format!("{:?}", b_out.map_err(|e| e.to_string())),"connected":connected},"violation":!why.is_empty(),"why":why.join(" | ")})
    })
}

/// a call that went out with a numeric id is answered with the same digits as a text id (and with null): neither is "its own id", so the call must not complete with that result
pub fn id_kind(_a: &Value) -> Value {
    use crate::memclient::client;
    let rt = tokio::runtime::Builder::new_multi_thread().worker_threads(2).enable_all().build().unwrap();
    rt.block_on(async move {
        let mut why = vec![];
        let mut seen = vec![];
        for other in ["text", "null"] {
            let (c, mut s) = client(ClientBuilder::default().request_timeout(std::time::Duration::from_millis(500)));
            let c = std::sync::Arc::new(c);
            let ca = c.clone();
            let h = tokio::spawn(async move { ca.request::<String, _>("a", rpc_params![]).await });
            let rq = s.next_request().await.unwrap();
            let wire = rq["id"].clone();
            let id = if other == "text" { json!(wire.as_u64().map(|n| n.to_string()).unwrap_or_else(|| wire.to_string())) } else { Value::Null };
            s.push(json!({"jsonrpc":"2.0","id":id,"result":"not-yours"}));
            let out = h.await.unwrap();
            seen.push(format!("{other}: wire id {wire} -> {:?}", out.as_ref().map_err(|e| e.to_string())));
            if matches!(&out, Ok(v) if v == "not-yours") {
                why.push(format!("a call sent with id {wire} completed with a response whose id is {id}"));
            }
        }
        json!({"scenario":"c03_id_kind","observed":{"outcomes":seen},"violation":!why.is_empty(),"why":why.join(" | ")})
    })
}

/// the routing scenarios together (a model of the routing step leaves open which of them shows it)
pub fn routing(a: &Value) -> Value {
    let mut all = vec![];
    for r in [fast_reply(&json!({"calls": 2, "delay_ms": 50})), late_reply(a), subid_collision(a), id_kind(a)] {
        if r["violation"].as_bool().unwrap_or(false) {
            return r;
        }
        all.push(r["scenario"].clone());
    }
    json!({"scenario":"c03_routing","observed":{"ran":all},"violation":false,"why":""})
}
