//! C11: never more than max_connections are served; the (limit+1)-th is refused with 429; finished connections free their slot;
//! a WebSocket connection counts until the server is done with it.
use jsonrpsee_server::{RpcModule, Server, ServerConfig};
use serde_json::{json, Value};
use std::net::SocketAddr;
use std::time::Duration;
use tokio::io::{AsyncReadExt, AsyncWriteExt};
use tokio::net::TcpStream;
use tokio_util::compat::TokioAsyncReadCompatExt;

type WsTx = soketto::Sender<tokio_util::compat::Compat<TcpStream>>;
type WsRx = soketto::Receiver<tokio_util::compat::Compat<TcpStream>>;

/// Ok((tx, rx)) if accepted, Err(status) if rejected
async fn ws_connect(addr: SocketAddr) -> Result<(WsTx, WsRx), u16> {
    let sock = TcpStream::connect(addr).await.map_err(|_| 0u16)?;
    let host = addr.to_string();
    let mut client = soketto::handshake::Client::new(sock.compat(), &host, "/");
    match client.handshake().await {
        Ok(soketto::handshake::ServerResponse::Accepted { .. }) => Ok(client.into_builder().finish()),
        Ok(soketto::handshake::ServerResponse::Rejected { status_code }) => Err(status_code),
        Ok(soketto::handshake::ServerResponse::Redirect { status_code, .. }) => Err(status_code),
        Err(_) => Err(1),
    }
}

async fn http_post(addr: SocketAddr, body: &str) -> u16 {
    let Ok(mut sock) = TcpStream::connect(addr).await else { return 0 };
    let rq = format!("POST / HTTP/1.1\r\nHost: {addr}\r\nContent-Type: application/json\r\nConnection: close\r\nContent-Length: {}\r\n\r\n{}", body.len(), body);
    let _ = sock.write_all(rq.as_bytes()).await;
    let mut out = Vec::new();
    let _ = tokio::time::timeout(Duration::from_secs(10), sock.read_to_end(&mut out)).await;
    String::from_utf8_lossy(&out).split_whitespace().nth(1).and_then(|s| s.parse().ok()).unwrap_or(0)
}

fn module() -> RpcModule<()> {
    let mut m = RpcModule::new(());
    m.register_method("echo", |_, _, _| "ok").unwrap();
    m.register_method("big", |_, _, _| "a".repeat(1024 * 1024)).unwrap();
    m.register_async_method("slow", |_, _, _| async {
        tokio::time::sleep(Duration::from_millis(700)).await;
        "done"
    })
    .unwrap();
    m
}

/// Server::start with the limit in the configuration, or the low-level service builder with `max_connections(limit)` set on it
async fn start(entry: &str, limit: u32) -> (SocketAddr, jsonrpsee_server::ServerHandle) {
    if entry == "service_builder" || entry == "service_builder_from_config" {
        use jsonrpsee_server::{serve_with_graceful_shutdown, stop_channel};
        let listener = tokio::net::TcpListener::bind("127.0.0.1:0").await.unwrap();
        let addr = listener.local_addr().unwrap();
        let (stop_handle, server_handle) = stop_channel();
        // the limit is set on the service builder itself, or comes with the configuration the service builder is made from
        let svc_builder = if entry == "service_builder" {
            Server::builder().to_service_builder().max_connections(limit)
        } else {
            Server::builder().set_config(ServerConfig::builder().max_connections(limit).build()).to_service_builder()
        };
        let methods = module();
        tokio::spawn(async move {
            loop {
                let (sock, _) = tokio::select! {
                    r = listener.accept() => match r { Ok(s) => s, Err(_) => continue },
                    _ = stop_handle.clone().shutdown() => break,
                };
                let svc = svc_builder.clone().build(methods.clone(), stop_handle.clone());
                tokio::spawn(serve_with_graceful_shutdown(sock, svc, stop_handle.clone().shutdown()));
            }
        });
        (addr, server_handle)
    } else {
        let cfg = ServerConfig::builder().max_connections(limit).build();
        let server = Server::builder().set_config(cfg).build("127.0.0.1:0").await.unwrap();
        let addr = server.local_addr().unwrap();
        (addr, server.start(module()))
    }
}

async fn connect_within(addr: SocketAddr, ms: u64) -> bool {
    for _ in 0..(ms / 100) {
        if ws_connect(addr).await.is_ok() {
            return true;
        }
        tokio::time::sleep(Duration::from_millis(100)).await;
    }
    false
}

/// args {limit (1..3), entry: "server" | "service_builder", rounds}
pub fn limits(a: &Value) -> Value {
    let limit = a["limit"].as_u64().unwrap_or(2).clamp(1, 3) as u32;
    let entry = a["entry"].as_str().unwrap_or("server").to_string();
    let rounds = a["rounds"].as_u64().unwrap_or(2);
    let rt = tokio::runtime::Builder::new_multi_thread().worker_threads(4).enable_all().build().unwrap();
    rt.block_on(async move {
        let mut why: Vec<String> = vec![];
        let (addr, handle) = start(&entry, limit).await;
        let call = r#"{"jsonrpc":"2.0","id":1,"method":"echo"}"#;
        // ---- WebSocket sessions fill the limit, round after round
        for round in 0..rounds {
            let mut open = vec![];
            for i in 0..limit {
                match ws_connect(addr).await {
                    Ok(c) => open.push(c),
                    Err(s) => why.push(format!("round {round}: connection {i} of {limit} was refused with {s}")),
                }
            }
            match ws_connect(addr).await {
                Err(429) => {}
                Ok(_) => why.push(format!("round {round}: a connection beyond the limit of {limit} was accepted")),
                Err(s) => why.push(format!("round {round}: the connection beyond the limit got {s}, not 429")),
            }
            let st = http_post(addr, call).await;
            if st != 429 {
                why.push(format!("round {round}: an HTTP request beyond the limit got status {st}, not 429"));
            }
            drop(open);
            if !connect_within(addr, 3000).await {
                why.push(format!("round {round}: the slots of closed connections were not given back"));
            }
            tokio::time::sleep(Duration::from_millis(200)).await;
        }
        // ---- HTTP requests count while they are processed
        let slow = r#"{"jsonrpc":"2.0","id":1,"method":"slow"}"#;
        let mut inflight = vec![];
        for _ in 0..limit {
            inflight.push(tokio::spawn(http_post(addr, slow)));
        }
        tokio::time::sleep(Duration::from_millis(250)).await;
        let st = http_post(addr, call).await;
        if st != 429 {
            why.push(format!("an HTTP request arriving while {limit} are being processed got status {st}, not 429"));
        }
        for h in inflight {
            let s = h.await.unwrap_or(0);
            if s != 200 {
                why.push(format!("an admitted HTTP request ended with status {s}"));
            }
        }
        tokio::time::sleep(Duration::from_millis(100)).await;
        let st = http_post(addr, call).await;
        if st != 200 {
            why.push(format!("after the HTTP requests finished a new one got status {st}"));
        }
        let _ = handle.stop();
        // ---- a WebSocket connection keeps its slot while the server is still writing to it (limit 1, half-closed peer)
        if entry == "server" {
            let (addr, handle) = start("server", 1).await;
            let std_sock = std::net::TcpStream::connect(addr).unwrap();
            let ctl = std_sock.try_clone().unwrap();
            std_sock.set_nonblocking(true).unwrap();
            let sock = TcpStream::from_std(std_sock).unwrap();
            let host = addr.to_string();
            let mut client = soketto::handshake::Client::new(sock.compat(), &host, "/");
            if !matches!(client.handshake().await, Ok(soketto::handshake::ServerResponse::Accepted { .. })) {
                why.push("half-close phase: first connection not accepted".into());
            } else {
                let (mut tx, mut rx) = client.into_builder().finish();
                let calls = 64;
                for id in 0..calls {
                    let _ = tx.send_text(format!(r#"{{"jsonrpc":"2.0","method":"big","id":{id}}}"#)).await;
                }
                let _ = tx.flush().await;
                tokio::time::sleep(Duration::from_millis(500)).await;
                let _ = ctl.shutdown(std::net::Shutdown::Write);
                tokio::time::sleep(Duration::from_millis(500)).await;
                match ws_connect(addr).await {
                    Err(429) => {}
                    Ok(_) => why.push("a second connection was admitted while the first (limit 1) was still being served its answers".into()),
                    Err(s) => why.push(format!("half-close phase: second connection got {s}, not 429")),
                }
                let mut got = 0;
                let mut buf = Vec::new();
                while got < calls {
                    buf.clear();
                    match tokio::time::timeout(Duration::from_secs(5), rx.receive_data(&mut buf)).await {
                        Ok(Ok(_)) => got += 1,
                        _ => break,
                    }
                }
                if got != calls {
                    why.push(format!("half-close phase: only {got} of {calls} answers arrived"));
                }
                drop(tx);
                drop(rx);
                drop(ctl);
                if !connect_within(addr, 3000).await {
                    why.push("half-close phase: the slot was never given back".into());
                }
            }
            let _ = handle.stop();
        }
        json!({"scenario":"c11_limits","observed":{"limit":limit,"entry":entry},"violation":!why.is_empty(),"why":why.join(" | ")})
    })
}

/// A WebSocket peer that stops answering pings while one of its calls is still running is closed by the server for inactivity:
/// the slot it held must be free again although the handler never finishes.
pub fn inactive_peer(_a: &Value) -> Value {
    use jsonrpsee_server::PingConfig;
    let rt = tokio::runtime::Builder::new_multi_thread().worker_threads(2).enable_all().build().unwrap();
    rt.block_on(async move {
        let ping = PingConfig::new().ping_interval(Duration::from_millis(50)).inactive_limit(Duration::from_millis(70)).max_failures(3);
        let cfg = ServerConfig::builder().max_connections(1).enable_ws_ping(ping).build();
        let server = Server::builder().set_config(cfg).build("127.0.0.1:0").await.unwrap();
        let addr = server.local_addr().unwrap();
        let (started_tx, mut started_rx) = tokio::sync::mpsc::unbounded_channel::<()>();
        let mut m = RpcModule::new(started_tx);
        m.register_async_method("never", |_, started, _| async move {
            let _ = started.send(());
            futures_util::future::pending::<()>().await;
            "unreachable"
        })
        .unwrap();
        let handle = server.start(m);
        // the peer never reads from the socket, hence never answers a ping
        let Ok((mut tx, _rx)) = ws_connect(addr).await else {
            return json!({"scenario":"c11_inactive_peer","observed":{},"violation":true,"why":"first connection refused"});
        };
        let _ = tx.send_text(r#"{"jsonrpc":"2.0","method":"never","id":1}"#).await;
        let _ = tx.flush().await;
        let started = tokio::time::timeout(Duration::from_secs(5), started_rx.recv()).await.is_ok();
        let refused_while_held = matches!(ws_connect(addr).await, Err(429));
        let mut admitted_after_ms = None;
        let t0 = std::time::Instant::now();
        for _ in 0..30 {
            tokio::time::sleep(Duration::from_millis(200)).await;
            if ws_connect(addr).await.is_ok() {
                admitted_after_ms = Some(t0.elapsed().as_millis() as u64);
                break;
            }
        }
        drop(tx);
        let _ = handle.stop();
        let violation = !started || admitted_after_ms.is_none();
        json!({"scenario":"c11_inactive_peer","observed":{"handler_started":started,"second_refused_while_slot_held":refused_while_held,"admitted_after_ms":admitted_after_ms},
               "violation":violation,"why": if violation {"the slot of a connection the server closed for inactivity was not released within 6 s (its handler is still running)"} else {""}})
    })
}

/// An HTTP request counts while it is processed - and no longer: when the peer goes away in the middle of a call, the handler's work is dropped together with the
/// slot; it must not keep running next to the request that was admitted in its place.
pub fn http_peer_gone(_a: &Value) -> Value {
    use std::sync::atomic::{AtomicUsize, Ordering};
    use std::sync::Arc;
    struct InFlight(Arc<AtomicUsize>);
    impl Drop for InFlight {
        fn drop(&mut self) {
            self.0.fetch_sub(1, Ordering::SeqCst);
        }
    }
    let rt = tokio::runtime::Builder::new_multi_thread().worker_threads(2).enable_all().build().unwrap();
    rt.block_on(async move {
        let running = Arc::new(AtomicUsize::new(0));
        let mut m = RpcModule::new(running.clone());
        m.register_async_method("hang", |_, running, _| async move {
            running.fetch_add(1, Ordering::SeqCst);
            let _guard = InFlight(running.as_ref().clone());
            futures_util::future::pending::<()>().await;
            "unreachable"
        })
        .unwrap();
        m.register_method("probe", |_, running, _| running.load(Ordering::SeqCst)).unwrap();
        let cfg = ServerConfig::builder().max_connections(1).build();
        let server = Server::builder().set_config(cfg).build("127.0.0.1:0").await.unwrap();
        let addr = server.local_addr().unwrap();
        let handle = server.start(m);
        let body = r#"{"jsonrpc":"2.0","id":1,"method":"hang"}"#;
        let mut sock = TcpStream::connect(addr).await.unwrap();
        let rq = format!("POST / HTTP/1.1\r\nHost: {addr}\r\nContent-Type: application/json\r\nContent-Length: {}\r\n\r\n{}", body.len(), body);
        let _ = sock.write_all(rq.as_bytes()).await;
        for _ in 0..100 {
            if running.load(Ordering::SeqCst) == 1 {
                break;
            }
            tokio::time::sleep(Duration::from_millis(10)).await;
        }
        let started = running.load(Ordering::SeqCst) == 1;
        let refused = http_post(addr, r#"{"jsonrpc":"2.0","id":2,"method":"probe"}"#).await;
        drop(sock);
        // the slot comes back; the request admitted next must be alone
        let mut seen = None;
        for _ in 0..30 {
            tokio::time::sleep(Duration::from_millis(100)).await;
            let Ok(mut s2) = TcpStream::connect(addr).await else { continue };
            let b2 = r#"{"jsonrpc":"2.0","id":3,"method":"probe"}"#;
            let rq = format!("POST / HTTP/1.1\r\nHost: {addr}\r\nContent-Type: application/json\r\nConnection: close\r\nContent-Length: {}\r\n\r\n{}", b2.len(), b2);
            let _ = s2.write_all(rq.as_bytes()).await;
            let mut out = Vec::new();
            let _ = tokio::time::timeout(Duration::from_secs(3), s2.read_to_end(&mut out)).await;
            let txt = String::from_utf8_lossy(&out).to_string();
            if txt.starts_with("HTTP/1.1 200") {
                seen = txt.split("\r\n\r\n").nth(1).and_then(|b| serde_json::from_str::<Value>(b).ok()).and_then(|v| v["result"].as_u64());
                break;
            }
        }
        let _ = handle.stop();
        let violation = !started || seen.is_none() || seen != Some(0);
        json!({"scenario":"c11_http_peer_gone","observed":{"handler_started":started,"second_while_busy":refused,"handlers_running_next_to_the_admitted_request":seen},"violation":violation,
               "why": if violation {"after the peer of an HTTP call went away its handler kept running while the freed slot served another request (or the slot never came back)"} else {""}})
    })
}
