//! C20: params builders under scripts of succeeding / failing inserts; tuple impls.
use jsonrpsee_core::params::{ArrayParams, ObjectParams};
use jsonrpsee_core::traits::ToRpcParams;
use serde::ser::{Error as _, SerializeSeq};
use serde::{Serialize, Serializer};
use serde_json::{json, Value};

enum V {
    Ok(u32),
    FailMid,
    FailFirst,
}
impl Serialize for V {
    fn serialize<S: Serializer>(&self, s: S) -> Result<S::Ok, S::Error> {
        match self {
            V::Ok(n) => json!({"n": n, "s": "a,]\"}"}).serialize(s),
            V::FailMid => {
                let mut q = s.serialize_seq(Some(2))?;
                q.serialize_element(&1u8)?;
                Err(S::Error::custom("boom"))
            }
            V::FailFirst => Err(S::Error::custom("boom")),
        }
    }
}

/// args {kind: "array"|"object", script: ["ok"|"fail_mid"|"fail_first", ..], keys?: [..]}
pub fn script(a: &Value) -> Value {
    // the solver's witness leaves the allocator's choices (capacities) open: when the witness script itself shows nothing, every script of up to three inserts
    // over {ok, fails before writing, fails after writing} is run as well
    if a.get("widen").and_then(|w| w.as_bool()).unwrap_or(false) {
        let mut b = a.clone();
        b.as_object_mut().unwrap().remove("widen");
        let first = script(&b);
        if first["violation"].as_bool().unwrap_or(false) {
            return first;
        }
        let opts = ["ok", "fail_first", "fail_mid"];
        for len in 1..=3usize {
            for code in 0..opts.len().pow(len as u32) {
                let mut c = code;
                let sc: Vec<&str> = (0..len).map(|_| { let o = opts[c % 3]; c /= 3; o }).collect();
                let mut b2 = b.clone();
                b2["script"] = json!(sc);
                let r = script(&b2);
                if r["violation"].as_bool().unwrap_or(false) {
                    return r;
                }
            }
        }
        return first;
    }
    // without explicit keys the script is run once per rotation of the awkward-key list; any failing rotation is the verdict
    if a.get("keys").is_none() && a.get("rot").is_none() {
        let mut last = Value::Null;
        for rot in 0..8u64 {
            let mut b = a.clone();
            b["rot"] = json!(rot);
            last = script(&b);
            if last["violation"].as_bool().unwrap_or(false) {
                return last;
            }
        }
        return last;
    }
    let rot = a.get("rot").and_then(|r| r.as_u64()).unwrap_or(0) as usize;
    let kind = a["kind"].as_str().unwrap_or("array").to_string();
    let script: Vec<String> = a["script"].as_array().unwrap().iter().map(|v| v.as_str().unwrap().to_string()).collect();
    let keys: Vec<String> = a.get("keys").and_then(|k| k.as_array()).map(|k| k.iter().map(|v| v.as_str().unwrap().to_string()).collect()).unwrap_or_default();
    let res = std::panic::catch_unwind(|| {
        let mut arr = ArrayParams::new();
        let mut obj = ObjectParams::new();
        let mut expect_arr = vec![];
        let mut expect_obj = serde_json::Map::new();
        let mut flags_ok = true;
        for (i, item) in script.iter().enumerate() {
            let v = match item.as_str() {
                "ok" => V::Ok(i as u32),
                "fail_first" => V::FailFirst,
                _ => V::FailMid,
            };
            let should_ok = matches!(v, V::Ok(_));
            let expect_val = json!({"n": i, "s": "a,]\"}"});
            // keys that need JSON escaping / are not ASCII: any correct encoder handles them
            const AWKWARD: [&str; 8] = ["a", "b\"c", "nul\u{0}", "e\u{301}", "zw\u{200b}", "tab\t\\", "\u{43d}\u{43e}\u{432}", "\u{1f980}"];
            let key = keys.get(i).cloned().unwrap_or_else(|| format!("{}{i}", AWKWARD[(i + rot) % AWKWARD.len()]));
            let r = if kind == "array" { arr.insert(v) } else { obj.insert(&key, v) };
            flags_ok &= r.is_ok() == should_ok;
            if should_ok {
                expect_arr.push(expect_val.clone());
                expect_obj.insert(key, expect_val);
            }
        }
        let out = if kind == "array" { arr.to_rpc_params() } else { obj.to_rpc_params() };
        let out = out.ok().flatten().map(|r| r.get().to_string());
        (out, expect_arr, expect_obj, flags_ok)
    });
    match res {
        Err(_) => json!({"scenario":"c20_script","observed":{"panicked":true},"violation":true,"why":"building panicked"}),
        Ok((out, expect_arr, expect_obj, flags_ok)) => {
            let nothing = expect_arr.is_empty();
            let (valid, equal) = match &out {
                None => (true, nothing),
                Some(t) => match serde_json::from_str::<Value>(t) {
                    Err(_) => (false, false),
                    Ok(v) => (true, if kind == "array" { v == Value::Array(expect_arr.clone()) } else { v == Value::Object(expect_obj.clone()) }),
                },
            };
            let violation = !valid || !equal || !flags_ok;
            json!({"scenario":"c20_script","observed":{"panicked":false,"text":out,"valid_json":valid,"equal":equal,"flags_ok":flags_ok},"violation":violation,
                   "why": if violation {"built params are invalid JSON or differ from the successfully inserted values"} else {""}})
        }
    }
}

macro_rules! tup {
    ($($i:expr),+) => { ($($i as u32,)+) };
}

/// args {arity: 1..16}: a tuple of distinct numbers must serialise to [0,1,..,n-1]
/// a value whose serialisation fails
struct Failing;
impl serde::Serialize for Failing {
    fn serialize<S: serde::Serializer>(&self, _s: S) -> Result<S::Ok, S::Error> {
        Err(serde::ser::Error::custom("this value cannot be serialised"))
    }
}

/// slices, vectors, arrays and JSON maps as params: the JSON text of the value itself, or its serialisation error
fn containers() -> Value {
    let mut why = vec![];
    let want = json!([1, "two", [3], {"four": 4}, null]);
    let items = vec![json!(1), json!("two"), json!([3]), json!({"four": 4}), Value::Null];
    let text = |r: Result<Option<Box<serde_json::value::RawValue>>, serde_json::Error>| r.ok().flatten().map(|r| r.get().to_string());
    let same = |t: Option<String>, w: &Value| t.as_deref().and_then(|t| serde_json::from_str::<Value>(t).ok()).as_ref() == Some(w);
    if !same(text(items.clone().to_rpc_params()), &want) {
        why.push("Vec<P> does not serialise to its elements in order".to_string());
    }
    if !same(text(items.as_slice().to_rpc_params()), &want) {
        why.push("&[P] does not serialise to its elements in order".to_string());
    }
    let arr: [Value; 5] = [json!(1), json!("two"), json!([3]), json!({"four": 4}), Value::Null];
    if !same(text(arr.to_rpc_params()), &want) {
        why.push("[P; N] does not serialise to its elements in order".to_string());
    }
    if !same(text(Vec::<u8>::new().to_rpc_params()), &json!([])) {
        why.push("an empty vector is not the empty array".to_string());
    }
    let none: [u8; 0] = [];
    if !same(text((&none[..]).to_rpc_params()), &json!([])) {
        why.push("an empty slice is not the empty array".to_string());
    }
    if !same(text(none.to_rpc_params()), &json!([])) {
        why.push("an empty fixed-size array is not the empty array".to_string());
    }
    let mut m = serde_json::Map::new();
    m.insert("b".into(), json!(1));
    m.insert("a".into(), json!({"x": [1, 2]}));
    if !same(text(m.clone().to_rpc_params()), &Value::Object(m)) {
        why.push("a JSON map does not serialise to its own key/value pairs".to_string());
    }
    if vec![Failing].to_rpc_params().is_ok() || [Failing].to_rpc_params().is_ok() || (&[Failing][..]).to_rpc_params().is_ok() {
        why.push("a value whose serialisation fails is not reported as an error".to_string());
    }
    json!({"scenario":"c20_tuple","observed":{"containers":true},"violation":!why.is_empty(),"why":why.join(" | ")})
}

pub fn tuple(a: &Value) -> Value {
    if a["containers"].as_bool().unwrap_or(false) {
        return containers();
    }
    let n = a["arity"].as_u64().unwrap() as usize;
    let out = match n {
        1 => tup!(0).to_rpc_params(),
        2 => tup!(0, 1).to_rpc_params(),
        3 => tup!(0, 1, 2).to_rpc_params(),
        4 => tup!(0, 1, 2, 3).to_rpc_params(),
        5 => tup!(0, 1, 2, 3, 4).to_rpc_params(),
        6 => tup!(0, 1, 2, 3, 4, 5).to_rpc_params(),
        7 => tup!(0, 1, 2, 3, 4, 5, 6).to_rpc_params(),
        8 => tup!(0, 1, 2, 3, 4, 5, 6, 7).to_rpc_params(),
        9 => tup!(0, 1, 2, 3, 4, 5, 6, 7, 8).to_rpc_params(),
        10 => tup!(0, 1, 2, 3, 4, 5, 6, 7, 8, 9).to_rpc_params(),
        11 => tup!(0, 1, 2, 3, 4, 5, 6, 7, 8, 9, 10).to_rpc_params(),
        12 => tup!(0, 1, 2, 3, 4, 5, 6, 7, 8, 9, 10, 11).to_rpc_params(),
        13 => tup!(0, 1, 2, 3, 4, 5, 6, 7, 8, 9, 10, 11, 12).to_rpc_params(),
        14 => tup!(0, 1, 2, 3, 4, 5, 6, 7, 8, 9, 10, 11, 12, 13).to_rpc_params(),
        15 => tup!(0, 1, 2, 3, 4, 5, 6, 7, 8, 9, 10, 11, 12, 13, 14).to_rpc_params(),
        _ => tup!(0, 1, 2, 3, 4, 5, 6, 7, 8, 9, 10, 11, 12, 13, 14, 15).to_rpc_params(),
    };
    let txt = out.ok().flatten().map(|r| r.get().to_string()).unwrap_or_default();
    let expect: Vec<u32> = (0..n.min(16) as u32).collect();
    let got: Option<Vec<u32>> = serde_json::from_str(&txt).ok();
    let violation = got.as_ref() != Some(&expect);
    json!({"scenario":"c20_tuple","observed":{"text":txt},"violation":violation,"why": if violation {"tuple does not serialise to its elements in order"} else {""}})
}
