//! C12: batch results are positional.
use crate::memclient::client;
use crate::u;
use jsonrpsee_core::client::{ClientBuilder, ClientT};
use jsonrpsee_core::params::BatchRequestBuilder;
use jsonrpsee_core::rpc_params;
use serde_json::{json, Value};

/// args {n, k, start (model's batch start), r0..r{k-1} (model's reply ids)}: the reply ids are replayed relative to the ids the
/// real client puts on the wire (offset = r_j - start, wrapping).
pub fn ws_batch(a: &Value) -> Value {
    let (n, k, start) = (u(a, "n") as usize, u(a, "k") as usize, u(a, "start"));
    let offs: Vec<u64> = (0..k).map(|j| u(a, &format!("r{j}")).wrapping_sub(start)).collect();
    let rt = tokio::runtime::Builder::new_multi_thread().worker_threads(2).enable_all().build().unwrap();
    rt.block_on(async move {
        let (c, mut s) = client(ClientBuilder::default().request_timeout(std::time::Duration::from_secs(2)));
        // spend one id first so that the batch does not start at 0
        let c = std::sync::Arc::new(c);
        let c1 = c.clone();
        let h = tokio::spawn(async move { c1.request::<Value, _>("warmup", rpc_params![]).await });
        let rq = s.next_request().await.unwrap();
        s.push(json!({"jsonrpc":"2.0","id":rq["id"],"result":0}));
        let _ = h.await;
        let mut b = BatchRequestBuilder::new();
        for _ in 0..n {
            b.insert("m", rpc_params![]).unwrap();
        }
        let c2 = c.clone();
        let h = tokio::spawn(async move { c2.batch_request::<String>(b).await });
        let rq = s.next_request().await.expect("batch on the wire");
        let ids: Vec<u64> = rq.as_array().unwrap().iter().map(|e| e["id"].as_u64().unwrap()).collect();
        let first = ids[0];
        let reply: Vec<Value> = offs.iter().map(|o| { let id = first.wrapping_add(*o); json!({"jsonrpc":"2.0","id":id,"result":format!("answer-for-{id}")}) }).collect();
        s.push(Value::Array(reply));
        let res = h.await.unwrap();
        let (violation, obs) = match res {
            Err(e) => (false, json!({"outcome":"Err","err":e.to_string()})),
            Ok(r) => {
                let entries: Vec<Result<String, i32>> = r.into_iter().map(|x| x.map_err(|e| e.code())).collect();
                let mut bad = entries.len() != n;
                for (i, e) in entries.iter().enumerate() {
                    if let Ok(v) = e {
                        if *v != format!("answer-for-{}", first.wrapping_add(i as u64)) {
                            bad = true;
                        }
                    }
                }
                (bad, json!({"outcome":"Ok","entries":entries.iter().map(|e| match e { Ok(v) => v.clone(), Err(c) => format!("Err({c})") }).collect::<Vec<_>>()}))
            }
        };
        json!({"scenario":"c12_ws_batch","observed":obs,"violation":violation,"why": if violation {"batch completed with a list of the wrong length or an entry holding another entry's answer"} else {""}})
    })
}


/// HTTP client against a raw TCP server that answers a batch of n with responses whose ids are first + offset_j.
/// args {n, offsets:[..]}  or  {n, k, start, r0..} (solver model: offsets = r_j - start)
pub fn http_batch(a: &Value) -> Value {
    use jsonrpsee_http_client::HttpClientBuilder;
    use tokio::io::{AsyncReadExt, AsyncWriteExt};
    let n = u(a, "n") as usize;
    let offs: Vec<u64> = match a.get("offsets").and_then(|o| o.as_array()) {
        Some(v) => v.iter().map(|x| x.as_u64().unwrap()).collect(),
        None => {
            let (k, start) = (u(a, "k") as usize, u(a, "start"));
            (0..k).map(|j| u(a, &format!("r{j}")).wrapping_sub(start)).collect()
        }
    };
    let rt = tokio::runtime::Builder::new_multi_thread().worker_threads(2).enable_all().build().unwrap();
    rt.block_on(async move {
        let listener = tokio::net::TcpListener::bind("127.0.0.1:0").await.unwrap();
        let addr = listener.local_addr().unwrap();
        let offs2 = offs.clone();
        tokio::spawn(async move {
            loop {
                let Ok((mut sock, _)) = listener.accept().await else { break };
                let offs = offs2.clone();
                tokio::spawn(async move {
                    let mut buf = Vec::new();
                    let mut tmp = [0u8; 4096];
                    loop {
                        let Ok(m) = sock.read(&mut tmp).await else { return };
                        if m == 0 { return; }
                        buf.extend_from_slice(&tmp[..m]);
                        let txt = String::from_utf8_lossy(&buf).to_string();
                        if let Some(h) = txt.find("\r\n\r\n") {
                            let cl: usize = txt[..h].lines().find_map(|l| l.to_ascii_lowercase().strip_prefix("content-length:").map(|v| v.trim().parse().unwrap_or(0))).unwrap_or(0);
                            if buf.len() >= h + 4 + cl {
                                let body: Value = serde_json::from_slice(&buf[h + 4..h + 4 + cl]).unwrap_or(Value::Null);
                                let reply = match body.as_array() {
                                    Some(arr) if !arr.is_empty() => {
                                        let first = arr[0]["id"].as_u64().unwrap_or(0);
                                        Value::Array(offs.iter().map(|o| { let id = first.wrapping_add(*o); json!({"jsonrpc":"2.0","id":id,"result":format!("answer-for-{id}")}) }).collect())
                                    }
                                    _ => json!({"jsonrpc":"2.0","id":body["id"],"result":0}),
                                };
                                let out = reply.to_string();
                                let _ = sock.write_all(format!("HTTP/1.1 200 OK\r\ncontent-type: application/json\r\ncontent-length: {}\r\n\r\n{}", out.len(), out).as_bytes()).await;
                                buf.clear();
                            }
                        }
                    }
                });
            }
        });
        let c = HttpClientBuilder::default().request_timeout(std::time::Duration::from_secs(3)).build(format!("http://{addr}")).unwrap();
        // spend 16 ids so that the batch starts at 16 (replies may then carry ids below the batch)
        for _ in 0..16 { let _ = c.request::<Value, _>("warmup", rpc_params![]).await; }
        let mut b = BatchRequestBuilder::new();
        for _ in 0..n { b.insert("m", rpc_params![]).unwrap(); }
        let res = c.batch_request::<String>(b).await;
        let (violation, obs) = match res {
            Err(e) => (false, json!({"outcome":"Err","err":e.to_string().chars().take(120).collect::<String>()})),
            Ok(r) => {
                let (n_ok, n_err) = (r.num_successful_calls(), r.num_failed_calls());
                let entries: Vec<Result<String, i32>> = r.into_iter().map(|x| x.map_err(|e| e.code())).collect();
                let first = 16u64; // ids 0..15 were used by the warm-up calls
                let mut bad = entries.len() != n;
                // the counts describe the entries
                if n_ok != entries.iter().filter(|e| e.is_ok()).count() || n_err != entries.iter().filter(|e| e.is_err()).count() {
                    bad = true;
                }
                for (i, e) in entries.iter().enumerate() {
                    if let Ok(v) = e { if *v != format!("answer-for-{}", first + i as u64) { bad = true; } }
                }
                (bad, json!({"outcome":"Ok","counted_ok":n_ok,"counted_failed":n_err,"entries":entries.iter().map(|e| match e { Ok(v) => v.clone(), Err(c) => format!("Err({c})") }).collect::<Vec<_>>()}))
            }
        };
        json!({"scenario":"c12_http_batch","observed":obs,"violation":violation,"why": if violation {"HTTP batch completed with a list of the wrong length, an entry holding another entry's answer, or success / failure counts that do not describe its entries"} else {""}})
    })
}

/// args {pre, n}: `pre` single calls first (so that the batch ids cross a digit-count boundary), then a batch of n answered in wire
/// order and in reverse order: entry i of the result is the answer to request i both times
pub fn ws_batch_order(a: &Value) -> Value {
    let (pre, n) = (u(a, "pre") as usize, u(a, "n") as usize);
    let rt = tokio::runtime::Builder::new_multi_thread().worker_threads(2).enable_all().build().unwrap();
    rt.block_on(async move {
        let (c, mut s) = client(ClientBuilder::default().request_timeout(std::time::Duration::from_secs(2)));
        let c = std::sync::Arc::new(c);
        for _ in 0..pre {
            let c1 = c.clone();
            let h = tokio::spawn(async move { c1.request::<Value, _>("warmup", rpc_params![]).await });
            let rq = s.next_request().await.unwrap();
            s.push(json!({"jsonrpc":"2.0","id":rq["id"],"result":0}));
            let _ = h.await;
        }
        let mut why = vec![];
        for reverse in [false, true] {
            let mut b = BatchRequestBuilder::new();
            for i in 0..n {
                b.insert("m", rpc_params![i]).unwrap();
            }
            let c2 = c.clone();
            let h = tokio::spawn(async move { c2.batch_request::<String>(b).await });
            let rq = s.next_request().await.expect("batch on the wire");
            let mut reply: Vec<Value> = rq.as_array().unwrap().iter().map(|e| json!({"jsonrpc":"2.0","id":e["id"],"result":format!("answer-to-params-{}", e["params"][0])})).collect();
            if reverse {
                reply.reverse();
            }
            s.push(Value::Array(reply));
            match h.await.unwrap() {
                Err(e) => why.push(format!("batch failed: {e}")),
                Ok(r) => {
                    let got: Vec<String> = r.into_iter().map(|x| x.unwrap_or_else(|e| format!("Err({})", e.code()))).collect();
                    let want: Vec<String> = (0..n).map(|i| format!("answer-to-params-{i}")).collect();
                    if got != want {
                        why.push(format!("reply in {} order: results {got:?}, the requests were {want:?}", if reverse { "reverse" } else { "wire" }));
                    }
                }
            }
        }
        // one entry's result does not decode into the caller's type: the whole call fails, or that entry is an error - never a shorter or shifted list
        if n >= 2 {
            let mut b = BatchRequestBuilder::new();
            for i in 0..n {
                b.insert("m", rpc_params![i]).unwrap();
            }
            let c2 = c.clone();
            let h = tokio::spawn(async move { c2.batch_request::<String>(b).await });
            let rq = s.next_request().await.expect("batch on the wire");
            let reply: Vec<Value> = rq
                .as_array()
                .unwrap()
                .iter()
                .enumerate()
                .map(|(i, e)| if i == 1 { json!({"jsonrpc":"2.0","id":e["id"],"result":13}) } else { json!({"jsonrpc":"2.0","id":e["id"],"result":format!("answer-to-params-{}", e["params"][0])}) })
                .collect();
            s.push(Value::Array(reply));
            if let Ok(r) = h.await.unwrap() {
                let (ok_n, err_n, len) = (r.num_successful_calls(), r.num_failed_calls(), r.len());
                let got: Vec<String> = r.into_iter().map(|x| x.unwrap_or_else(|e| format!("Err({})", e.code()))).collect();
                let positional = got.len() == n && got.iter().enumerate().all(|(i, g)| if i == 1 { g.starts_with("Err(") } else { *g == format!("answer-to-params-{i}") });
                if !positional || len != n || ok_n + err_n != n || err_n != 1 {
                    why.push(format!("an entry that does not decode: results {got:?} (len {len}, {ok_n} ok, {err_n} failed) for {n} requests"));
                }
            }
        }
        json!({"scenario":"c12_ws_batch_order","observed":{"pre":pre,"n":n},"violation":!why.is_empty(),"why":why.join(" | ")})
    })
}

/// Two batches in flight on one connection: A of n entries, then B of n-1. The reply to A lacks the answer to A's first entry.
/// B must still get its own answers; nothing A's reply carried may end up in B.
pub fn two_batches(a: &Value) -> Value {
    let n = (u(a, "n") as usize).clamp(2, 8);
    let rt = tokio::runtime::Builder::new_multi_thread().worker_threads(2).enable_all().build().unwrap();
    rt.block_on(async move {
        let (c, mut s) = client(ClientBuilder::default().request_timeout(std::time::Duration::from_secs(2)));
        let c = std::sync::Arc::new(c);
        let mk = |k: usize, tag: &str| {
            let mut b = BatchRequestBuilder::new();
            for i in 0..k {
                b.insert("m", rpc_params![format!("{tag}{i}")]).unwrap();
            }
            b
        };
        let (ba, bb) = (mk(n, "A"), mk(n - 1, "B"));
        let ca = c.clone();
        let ha = tokio::spawn(async move { ca.batch_request::<String>(ba).await });
        let rqa = s.next_request().await.expect("batch A on the wire");
        let cb = c.clone();
        let hb = tokio::spawn(async move { cb.batch_request::<String>(bb).await });
        let rqb = s.next_request().await.expect("batch B on the wire");
        let ids = |rq: &Value| -> Vec<Value> { rq.as_array().map(|x| x.iter().map(|e| e["id"].clone()).collect()).unwrap_or_default() };
        let (ida, idb) = (ids(&rqa), ids(&rqb));
        let answer = |e: &Value| json!({"jsonrpc":"2.0","id":e["id"],"result":format!("answer-to-{}", e["params"][0].as_str().unwrap_or("?"))});
        // the reply to A, without the answer to its first entry
        s.push(Value::Array(rqa.as_array().unwrap().iter().skip(1).map(answer).collect()));
        tokio::time::sleep(std::time::Duration::from_millis(200)).await;
        // the reply to B, complete
        s.push(Value::Array(rqb.as_array().unwrap().iter().map(answer).collect()));
        let rb = hb.await.unwrap();
        let ra = ha.await.unwrap();
        let show = |r: Result<jsonrpsee_core::client::BatchResponse<String>, jsonrpsee_core::client::Error>| match r {
            Ok(r) => r.into_iter().map(|x| x.unwrap_or_else(|e| format!("Err({})", e.code()))).collect::<Vec<_>>(),
            Err(e) => vec![format!("failed: {e}")],
        };
        let (got_a, got_b) = (show(ra), show(rb));
        let mut why = vec![];
        if got_b.iter().any(|x| x.contains("answer-to-A")) {
            why.push(format!("batch B was completed with answers to batch A's entries: {got_b:?}"));
        }
        if got_a.iter().any(|x| x.contains("answer-to-B")) {
            why.push(format!("batch A was completed with answers to batch B's entries: {got_a:?}"));
        }
        let shared: Vec<&Value> = ida.iter().filter(|i| idb.contains(i)).collect();
        json!({"scenario":"c12_two_batches","observed":{"ids_a":ida,"ids_b":idb,"ids_shared":shared,"a":got_a,"b":got_b},"violation":!why.is_empty(),"why":why.join(" | ")})
    })
}
