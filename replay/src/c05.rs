//! C05: whether notifications arrive singly or packed in an array makes no difference to what each subscription stream yields.
use crate::memclient::{client, ServerSide};
use jsonrpsee_core::client::{Client, ClientBuilder, Subscription, SubscriptionClientT};
use jsonrpsee_core::rpc_params;
use serde_json::{json, Value};
use std::sync::Arc;

async fn subscribe(c: &Arc<Client>, s: &mut ServerSide, sid: &str) -> Subscription<String> {
    let c2 = c.clone();
    let h = tokio::spawn(async move { c2.subscribe::<String, _>("sub", rpc_params![], "unsub").await });
    let rq = s.next_request().await.expect("subscribe on the wire");
    s.push(json!({"jsonrpc":"2.0","id":rq["id"],"result":sid}));
    h.await.unwrap().expect("accepted")
}

fn msg(m: &str) -> Value {
    // "A:x" / "B:x" notification for subscription A/B, "closeA"/"closeB" close notification, "U:x" unknown subscription
    if let Some(which) = m.strip_prefix("close") {
        return json!({"jsonrpc":"2.0","method":"sub","params":{"subscription":which,"error":"closed"}});
    }
    let (who, payload) = m.split_once(':').unwrap();
    json!({"jsonrpc":"2.0","method":"sub","params":{"subscription":who,"result":payload}})
}

async fn drain(sub: &mut Subscription<String>) -> (Vec<String>, bool) {
    let mut got = vec![];
    let mut ended = false;
    loop {
        match tokio::time::timeout(std::time::Duration::from_millis(300), sub.next()).await {
            Ok(Some(Ok(v))) => got.push(v),
            Ok(Some(Err(_))) => {}
            Ok(None) => {
                ended = true;
                break;
            }
            Err(_) => break,
        }
    }
    (got, ended)
}

async fn run(messages: &[String], tail: &[String], packed: bool, buffer: usize) -> Value {
    let (c, mut s) = client(ClientBuilder::default().max_buffer_capacity_per_subscription(buffer).request_timeout(std::time::Duration::from_secs(2)));
    let c = Arc::new(c);
    let mut a = subscribe(&c, &mut s, "A").await;
    let mut b = subscribe(&c, &mut s, "B").await;
    if packed {
        s.push(Value::Array(messages.iter().map(|m| msg(m)).collect()));
    } else {
        for m in messages {
            s.push(msg(m));
        }
    }
    tokio::time::sleep(std::time::Duration::from_millis(100)).await;
    for m in tail {
        s.push(msg(m));
    }
    let (ga, ea) = drain(&mut a).await;
    let (gb, eb) = drain(&mut b).await;
    json!({"A":ga,"A_ended":ea,"B":gb,"B_ended":eb,"connected":c.is_connected()})
}

fn battery() -> Vec<(Vec<String>, Vec<String>, usize)> {
    let v = |x: &[&str]| x.iter().map(|s| s.to_string()).collect::<Vec<_>>();
    vec![
        (v(&["A:a1", "closeA", "A:a2"]), v(&[]), 4),
        (v(&["A:a1", "B:b1", "closeB", "B:b2", "A:a2"]), v(&[]), 4),
        (v(&["A:a1", "A:a2", "B:b1"]), v(&["B:b2"]), 1),
        (v(&["U:u1", "A:a1", "B:b1"]), v(&[]), 4),
    ]
}

/// args {} (built-in battery) or {messages:[..], tail:[..], buffer:n}
pub fn array_vs_single(a: &Value) -> Value {
    let rt = tokio::runtime::Builder::new_multi_thread().worker_threads(2).enable_all().build().unwrap();
    let list = |k: &str| a.get(k).and_then(|v| v.as_array()).map(|v| v.iter().map(|x| x.as_str().unwrap().to_string()).collect::<Vec<_>>());
    let cases = match list("messages") {
        Some(m) => vec![(m, list("tail").unwrap_or_default(), a.get("buffer").and_then(|b| b.as_u64()).unwrap_or(4) as usize)],
        None => battery(),
    };
    rt.block_on(async move {
        let mut out = vec![];
        let mut bad = false;
        for (m, t, buf) in cases {
            let single = run(&m, &t, false, buf).await;
            let packed = run(&m, &t, true, buf).await;
            let diff = single != packed;
            bad |= diff;
            out.push(json!({"messages":m,"tail":t,"buffer":buf,"single":single,"packed":packed,"differs":diff}));
        }
        json!({"scenario":"c05_array_vs_single","observed":{"cases":out},"violation":bad,
               "why": if bad {"packing notifications into an array changed what a subscription stream yields"} else {""}})
    })
}

pub fn close_in_array(_a: &Value) -> Value {
    array_vs_single(&json!({"messages":["A:a1","closeA","A:a2"],"tail":[],"buffer":4}))
}

/// The stream (kind "subscription") or notification handler (kind "handler") is dropped while the client's request queue is
/// full, so the drop-time message is lost; a further notification then arrives.
/// subscription: exactly one unsubscribe naming it must reach the server; handler: it must be unregistered (re-registering works).
pub fn drop_full_queue(a: &Value) -> Value {
    use crate::memclient::gated_client;
    use jsonrpsee_core::client::ClientT;
    let kind = a["kind"].as_str().unwrap_or("subscription").to_string();
    let rt = tokio::runtime::Builder::new_multi_thread().worker_threads(2).enable_all().build().unwrap();
    rt.block_on(async move {
        let (c, mut s, gate) = gated_client(ClientBuilder::default().max_concurrent_requests(1).request_timeout(std::time::Duration::from_secs(5)));
        let c = Arc::new(c);
        let mut sub: Option<Subscription<String>> = None;
        let mut handler: Option<Subscription<String>> = None;
        if kind == "lagging" {
            // the consumer does not read; the lag is detected while the request queue is full: the client must still close the subscription on the server
            let (c, mut s, gate) = gated_client(ClientBuilder::default().max_concurrent_requests(1).max_buffer_capacity_per_subscription(1).request_timeout(std::time::Duration::from_secs(5)));
            let c = Arc::new(c);
            let held = subscribe(&c, &mut s, "A").await;
            let stall = gate.write().await;
            let (c1, c2) = (c.clone(), c.clone());
            let h1 = tokio::spawn(async move { c1.request::<Value, _>("x", rpc_params![]).await });
            tokio::time::sleep(std::time::Duration::from_millis(100)).await;
            let h2 = tokio::spawn(async move { c2.request::<Value, _>("y", rpc_params![]).await });
            tokio::time::sleep(std::time::Duration::from_millis(100)).await;
            for k in 0..3 {
                s.push(json!({"jsonrpc":"2.0","method":"sub","params":{"subscription":"A","result":format!("n{k}")}}));
            }
            tokio::time::sleep(std::time::Duration::from_millis(200)).await;
            drop(stall);
            let mut unsubs = 0;
            for _ in 0..2 {
                if let Some(rq) = s.next_request().await {
                    if rq["method"] == "unsub" { unsubs += 1; }
                    s.push(json!({"jsonrpc":"2.0","id":rq["id"],"result":1}));
                }
            }
            let _ = h1.await;
            let _ = h2.await;
            while let Some(rq) = s.try_next_request(500).await {
                if rq["method"] == "unsub" { unsubs += 1; }
                s.push(json!({"jsonrpc":"2.0","id":rq["id"],"result":true}));
            }
            let lagged = matches!(held.close_reason(), Some(jsonrpsee_core::client::SubscriptionCloseReason::Lagged));
            let violation = unsubs != 1 || !lagged;
            return json!({"scenario":"c05_drop_full_queue","observed":{"kind":"lagging","unsubscribe_requests":unsubs,"reported_lagged":lagged},"violation":violation,
                          "why": if violation {"a subscription that lagged while the request queue was full was not closed on the server by exactly one unsubscribe"} else {""}});
        }
        if kind == "subscription" || kind == "explicit" {
            sub = Some(subscribe(&c, &mut s, "A").await);
        } else {
            handler = Some(c.subscribe_to_method::<String>("event").await.expect("handler registered"));
        }
        // stall the writer, park one call inside `send` and one in the queue
        let stall = gate.write().await;
        let (c1, c2) = (c.clone(), c.clone());
        let h1 = tokio::spawn(async move { c1.request::<Value, _>("x", rpc_params![]).await });
        tokio::time::sleep(std::time::Duration::from_millis(100)).await;
        let h2 = tokio::spawn(async move { c2.request::<Value, _>("y", rpc_params![]).await });
        tokio::time::sleep(std::time::Duration::from_millis(100)).await;
        let mut explicit = None;
        if kind == "explicit" {
            // the application ends the subscription itself, the queue being full at that moment
            let sb = sub.take().unwrap();
            explicit = Some(tokio::spawn(async move { tokio::time::timeout(std::time::Duration::from_secs(3), sb.unsubscribe()).await }));
        }
        drop(sub.take());
        drop(handler.take());
        tokio::time::sleep(std::time::Duration::from_millis(100)).await;
        drop(stall);
        // answer the two parked calls
        let mut unsubs = 0;
        for _ in 0..2 {
            if let Some(rq) = s.next_request().await {
                if rq["method"] == "unsub" { unsubs += 1; }
                s.push(json!({"jsonrpc":"2.0","id":rq["id"],"result":1}));
            }
        }
        let _ = h1.await;
        let _ = h2.await;
        if explicit.is_some() {
            while let Some(rq) = s.try_next_request(400).await {
                if rq["method"] == "unsub" { unsubs += 1; }
                s.push(json!({"jsonrpc":"2.0","id":rq["id"],"result":true}));
            }
        }
        // a further notification arrives
        if kind == "subscription" || kind == "explicit" {
            s.push(json!({"jsonrpc":"2.0","method":"sub","params":{"subscription":"A","result":"late"}}));
        } else {
            s.push(json!({"jsonrpc":"2.0","method":"event","params":"late"}));
        }
        while let Some(rq) = s.try_next_request(400).await {
            if rq["method"] == "unsub" { unsubs += 1; }
            s.push(json!({"jsonrpc":"2.0","id":rq["id"],"result":true}));
        }
        let (violation, obs) = if let Some(h) = explicit {
            let finished = matches!(h.await, Ok(Ok(Ok(()))));
            (unsubs != 1 || !finished, json!({"unsubscribe_requests": unsubs, "unsubscribe_call_finished": finished}))
        } else if kind == "subscription" {
            (unsubs != 1, json!({"unsubscribe_requests": unsubs}))
        } else {
            #[cfg(jsonrpsee_verif)]
            let handlers_left = c.verif_table_sizes().3;
            #[cfg(not(jsonrpsee_verif))]
            let handlers_left = 0usize;
            let again = c.subscribe_to_method::<String>("event").await;
            (again.is_err() || handlers_left != 0, json!({"reregister_ok": again.is_ok(), "notification_handlers_left": handlers_left}))
        };
        json!({"scenario":"c05_drop_full_queue","observed":obs,"violation":violation,
               "why": if violation {"the end of a subscription / handler did not reach the background task exactly once (no or repeated unsubscribe, handler still registered, or unsubscribe() never finished)"} else {""}})
    })
}

/// A subscription whose consumer fell more than the buffer behind: `close_reason()` must say Lagged both before and after the buffered
/// items were read and the stream ended.
pub fn close_reason(_a: &Value) -> Value {
    use jsonrpsee_core::client::SubscriptionCloseReason;
    let rt = tokio::runtime::Builder::new_multi_thread().worker_threads(2).enable_all().build().unwrap();
    rt.block_on(async move {
        let (c, mut s) = client(ClientBuilder::default().max_buffer_capacity_per_subscription(2).request_timeout(std::time::Duration::from_secs(2)));
        let c = Arc::new(c);
        let mut a = subscribe(&c, &mut s, "A").await;
        let name = |r: Option<SubscriptionCloseReason>| match r {
            None => "None",
            Some(SubscriptionCloseReason::Lagged) => "Lagged",
            Some(SubscriptionCloseReason::ConnectionClosed) => "ConnectionClosed",
        };
        let open = name(a.close_reason());
        for m in ["A:0", "A:1", "A:2"] {
            s.push(msg(m));
        }
        let mut unsubs = 0;
        while let Some(rq) = s.try_next_request(400).await {
            if rq["method"] == "unsub" { unsubs += 1; }
            s.push(json!({"jsonrpc":"2.0","id":rq["id"],"result":true}));
        }
        let before = name(a.close_reason());
        let (got, ended) = drain(&mut a).await;
        let after = name(a.close_reason());
        // a second subscription that the server closes: not lagged
        let mut b = subscribe(&c, &mut s, "B").await;
        s.push(msg("closeB"));
        let (_gb, eb) = drain(&mut b).await;
        let closed = name(b.close_reason());
        let violation = open != "None" || before != "Lagged" || after != "Lagged" || !ended || (eb && closed != "ConnectionClosed");
        json!({"scenario":"c05_close_reason","observed":{"while_open":open,"lagged_before_drain":before,"lagged_after_drain":after,"delivered":got,"ended":ended,"unsubscribe_requests":unsubs,"server_closed":closed,"server_closed_ended":eb},
               "violation":violation,"why": if violation {"close_reason() does not report a lagged subscription as Lagged (or reports a reason while open)"} else {""}})
    })
}
