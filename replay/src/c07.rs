//! C07: a message above max_request_body_size is never dispatched; the decision depends on that limit only.
use crate::u;
use jsonrpsee_server::{
    http as jhttp, serve_with_graceful_shutdown, stop_channel, ws as jws, ConnectionGuard, ConnectionState, Methods, RpcModule,
    Server, ServerConfig,
};
use jsonrpsee_core::middleware::RpcServiceBuilder;
use serde_json::{json, Value};
use std::net::SocketAddr;
use std::sync::atomic::{AtomicU32, AtomicUsize, Ordering};
use std::sync::Arc;
use tokio::io::{AsyncReadExt, AsyncWriteExt};
use tokio::net::{TcpListener, TcpStream};
use tokio_util::compat::TokioAsyncReadCompatExt;

fn module(hits: Arc<AtomicUsize>) -> RpcModule<()> {
    let mut m = RpcModule::new(());
    m.register_method("echo", move |_, _, _| {
        hits.fetch_add(1, Ordering::SeqCst);
        "ok"
    })
    .unwrap();
    m
}

/// a JSON-RPC call text of exactly `n` bytes (n >= 64)
pub fn message(n: usize) -> String {
    let head = r#"{"jsonrpc":"2.0","id":1,"method":"echo","params":[""#;
    let tail = r#""]}"#;
    assert!(n >= head.len() + tail.len());
    format!("{head}{}{tail}", "a".repeat(n - head.len() - tail.len()))
}

fn cfg(req: u32, resp: u32) -> ServerConfig {
    ServerConfig::builder().max_request_body_size(req).max_response_body_size(resp).build()
}

/// low-level assembly: hyper connection + ws::connect / http::call_with_service_builder (as in the repository's example)
async fn low_level_server(req: u32, resp: u32, hits: Arc<AtomicUsize>) -> (SocketAddr, jsonrpsee_server::ServerHandle) {
    low_level_server_with(cfg(req, resp), module(hits).into()).await
}

/// the same assembly for any configuration and method set (used by other scenarios)
pub async fn low_level_server_with(config: ServerConfig, methods: Methods) -> (SocketAddr, jsonrpsee_server::ServerHandle) {
    let listener = TcpListener::bind("127.0.0.1:0").await.unwrap();
    let addr = listener.local_addr().unwrap();
    let (stop_handle, server_handle) = stop_channel();
    let conn_guard = ConnectionGuard::new(100);
    let conn_id = Arc::new(AtomicU32::new(0));
    tokio::spawn(async move {
        loop {
            let (sock, _) = tokio::select! {
                r = listener.accept() => match r { Ok(s) => s, Err(_) => continue },
                _ = stop_handle.clone().shutdown() => break,
            };
            let (methods, stop_handle2, conn_guard, conn_id) = (methods.clone(), stop_handle.clone(), conn_guard.clone(), conn_id.clone());
            let sh = stop_handle.clone();
            let config = config.clone();
            let svc = tower::service_fn(move |rq: hyper::Request<hyper::body::Incoming>| {
                let (methods, stop_handle, conn_guard, conn_id) = (methods.clone(), stop_handle2.clone(), conn_guard.clone(), conn_id.clone());
                let config = config.clone();
                async move {
                    let permit = conn_guard.try_acquire().unwrap();
                    let conn = ConnectionState::new(stop_handle, conn_id.fetch_add(1, Ordering::Relaxed), permit);
                    if jws::is_upgrade_request(&rq) {
                        match jws::connect(rq, config, methods, conn, RpcServiceBuilder::new()).await {
                            Ok((rp, fut)) => {
                                tokio::spawn(fut);
                                Ok::<_, std::convert::Infallible>(rp)
                            }
                            Err(rp) => Ok(rp),
                        }
                    } else {
                        Ok(jhttp::call_with_service_builder(rq, config, conn, methods, RpcServiceBuilder::new()).await)
                    }
                }
            });
            tokio::spawn(serve_with_graceful_shutdown(sock, svc, sh.shutdown()));
        }
    });
    (addr, server_handle)
}

async fn default_server(req: u32, resp: u32, hits: Arc<AtomicUsize>) -> (SocketAddr, jsonrpsee_server::ServerHandle) {
    let server = Server::builder().set_config(cfg(req, resp)).build("127.0.0.1:0").await.unwrap();
    let addr = server.local_addr().unwrap();
    (addr, server.start(module(hits)))
}

async fn start(entry: &str, req: u32, resp: u32, hits: Arc<AtomicUsize>) -> (SocketAddr, jsonrpsee_server::ServerHandle) {
    match entry {
        "low_level" => low_level_server(req, resp, hits).await,
        _ => default_server(req, resp, hits).await,
    }
}

/// args {entry: "server"|"low_level", max_req, max_resp, n}: one WebSocket text message of n bytes, then a small one.
pub fn ws(a: &Value) -> Value {
    let (req, resp, n) = (u(a, "max_req") as u32, u(a, "max_resp") as u32, u(a, "n") as usize);
    let entry = a["entry"].as_str().unwrap_or("server").to_string();
    let rt = tokio::runtime::Builder::new_multi_thread().worker_threads(2).enable_all().build().unwrap();
    rt.block_on(async move {
        let hits = Arc::new(AtomicUsize::new(0));
        let (addr, handle) = start(&entry, req, resp, hits.clone()).await;
        let sock = TcpStream::connect(addr).await.unwrap();
        let host = addr.to_string();
        let mut client = soketto::handshake::Client::new(sock.compat(), &host, "/");
        match client.handshake().await.unwrap() {
            soketto::handshake::ServerResponse::Accepted { .. } => {}
            r => panic!("handshake: {r:?}"),
        }
        let (mut tx, mut rx) = client.into_builder().finish();
        tx.send_text(message(n)).await.unwrap();
        tx.flush().await.unwrap();
        let mut buf = Vec::new();
        let first = match tokio::time::timeout(std::time::Duration::from_secs(5), rx.receive_data(&mut buf)).await {
            Ok(Ok(_)) => serde_json::from_slice::<Value>(&buf).unwrap_or(Value::Null),
            _ => Value::Null,
        };
        let ran_big = hits.load(Ordering::SeqCst);
        // the connection must keep serving: a small follow-up call
        buf.clear();
        let follow = if tx.send_text(message(64)).await.is_ok() && tx.flush().await.is_ok() {
            match tokio::time::timeout(std::time::Duration::from_secs(5), rx.receive_data(&mut buf)).await {
                Ok(Ok(_)) => serde_json::from_slice::<Value>(&buf).unwrap_or(Value::Null),
                _ => Value::Null,
            }
        } else {
            Value::Null
        };
        let _ = handle.stop();
        let code = first["error"]["code"].as_i64();
        let processed = ran_big > 0;
        let over = n as u64 > req as u64;
        let follow_ok = follow["result"] == json!("ok") || (64 > req && follow["error"]["code"] == json!(-32007));
        let violation = if over { processed || code != Some(-32007) || !follow_ok } else { !processed || first["result"] != json!("ok") };
        json!({"scenario":"c07_ws","observed":{"processed":processed,"code":code,"follow_ok":follow_ok},"expected":{"processed":!over},
               "violation":violation,"why": if violation {"message size vs max_request_body_size decides wrongly (or connection stopped serving)"} else {""}})
    })
}

/// args {entry, max_req, max_resp, n, chunked: bool, ws_prefix: leading spaces inside n}: one HTTP POST with an n-byte body.
pub fn http(a: &Value) -> Value {
    let (req, resp, n) = (u(a, "max_req") as u32, u(a, "max_resp") as u32, u(a, "n") as usize);
    let entry = a["entry"].as_str().unwrap_or("server").to_string();
    let chunked = a["chunked"].as_bool().unwrap_or(false);
    let lead = a.get("lead").and_then(|v| v.as_u64()).unwrap_or(0) as usize;
    let rt = tokio::runtime::Builder::new_multi_thread().worker_threads(2).enable_all().build().unwrap();
    rt.block_on(async move {
        let hits = Arc::new(AtomicUsize::new(0));
        let (addr, handle) = start(&entry, req, resp, hits.clone()).await;
        let body = format!("{}{}", " ".repeat(lead), message(n - lead));
        let mut sock = TcpStream::connect(addr).await.unwrap();
        let mut rq = format!("POST / HTTP/1.1\r\nHost: {addr}\r\nContent-Type: application/json\r\nConnection: close\r\n");
        if chunked {
            rq.push_str("Transfer-Encoding: chunked\r\n\r\n");
            // two chunks
            let cut = body.len() / 2;
            rq.push_str(&format!("{:x}\r\n{}\r\n{:x}\r\n{}\r\n0\r\n\r\n", cut, &body[..cut], body.len() - cut, &body[cut..]));
        } else {
            rq.push_str(&format!("Content-Length: {}\r\n\r\n{}", body.len(), body));
        }
        let _ = sock.write_all(rq.as_bytes()).await;
        let mut out = Vec::new();
        let _ = tokio::time::timeout(std::time::Duration::from_secs(5), sock.read_to_end(&mut out)).await;
        let _ = handle.stop();
        let txt = String::from_utf8_lossy(&out).to_string();
        let status: u16 = txt.split_whitespace().nth(1).and_then(|s| s.parse().ok()).unwrap_or(0);
        let processed = hits.load(Ordering::SeqCst) > 0;
        let over = n as u64 > req as u64;
        // over the limit: never dispatched and an HTTP error status; within: dispatched and 200
        let violation = if over { processed || (200..300).contains(&status) } else { !processed || status != 200 };
        json!({"scenario":"c07_http","observed":{"processed":processed,"status":status},"expected":{"processed":!over},
               "violation":violation,"why": if violation {"body size vs max_request_body_size decides wrongly"} else {""}})
    })
}

/// The two size limits stay apart on every route and transport: with (request limit, response limit) = (small, large) and (large, small), a request between the two
/// is accepted / refused by the request limit alone, and an answer between the two is delivered / replaced by -32008 by the response limit alone.
pub fn limits_apart(_a: &Value) -> Value {
    use jsonrpsee_server::{RpcModule as M2, Server};
    let rt = tokio::runtime::Builder::new_multi_thread().worker_threads(2).enable_all().build().unwrap();
    rt.block_on(async move {
        let mut why = vec![];
        for entry in ["server", "low_level"] {
            for (req, resp) in [(300u32, 3000u32), (3000, 300)] {
                let mut m = M2::new(());
                m.register_method("len", |p, _, _| p.one::<String>().map(|s| s.len()).unwrap_or(0)).unwrap();
                m.register_method("long", |_, _, _| "a".repeat(1000)).unwrap();
                let cfg = cfg(req, resp);
                let (addr, handle) = if entry == "low_level" {
                    low_level_server_with(cfg, m.into()).await
                } else {
                    let server = Server::builder().set_config(cfg).build("127.0.0.1:0").await.unwrap();
                    (server.local_addr().unwrap(), server.start(m))
                };
                // a 1000-byte request and a 1000-byte answer: 300 < 1000 < 3000
                let big_req = format!(r#"{{"jsonrpc":"2.0","id":1,"method":"len","params":["{}"]}}"#, "b".repeat(1000));
                let small_req = r#"{"jsonrpc":"2.0","id":2,"method":"long"}"#.to_string();
                for transport in ["ws", "http"] {
                    let mut answers = vec![];
                    if transport == "ws" {
                        let sock = TcpStream::connect(addr).await.unwrap();
                        let host = addr.to_string();
                        let mut client = soketto::handshake::Client::new(sock.compat(), &host, "/");
                        if !matches!(client.handshake().await, Ok(soketto::handshake::ServerResponse::Accepted { .. })) {
                            why.push(format!("{entry}/{transport} ({req},{resp}): handshake refused"));
                            continue;
                        }
                        let (mut tx, mut rx) = client.into_builder().finish();
                        for rq in [&big_req, &small_req] {
                            let _ = tx.send_text(rq.as_str()).await;
                            let _ = tx.flush().await;
                            let mut buf = Vec::new();
                            match tokio::time::timeout(std::time::Duration::from_secs(5), rx.receive_data(&mut buf)).await {
                                Ok(Ok(_)) => answers.push(serde_json::from_slice::<Value>(&buf).unwrap_or(Value::Null)),
                                _ => answers.push(json!({"connection":"closed or silent"})),
                            }
                        }
                    } else {
                        for rq in [&big_req, &small_req] {
                            let mut sock = TcpStream::connect(addr).await.unwrap();
                            let t = format!("POST / HTTP/1.1\r\nHost: {addr}\r\nContent-Type: application/json\r\nConnection: close\r\nContent-Length: {}\r\n\r\n{}", rq.len(), rq);
                            let _ = sock.write_all(t.as_bytes()).await;
                            let mut out = Vec::new();
                            let _ = tokio::time::timeout(std::time::Duration::from_secs(5), sock.read_to_end(&mut out)).await;
                            let txt = String::from_utf8_lossy(&out).to_string();
                            let status: u16 = txt.split_whitespace().nth(1).and_then(|s| s.parse().ok()).unwrap_or(0);
                            let body = txt.split("\r\n\r\n").nth(1).unwrap_or("").to_string();
                            let mut v = serde_json::from_str::<Value>(&body).unwrap_or(Value::Null);
                            if !v.is_object() {
                                v = json!({});
                            }
                            v["http_status"] = json!(status);
                            answers.push(v);
                        }
                    }
                    // the request of 1000 bytes: accepted iff 1000 <= request limit - whatever the response limit is
                    let a0 = &answers[0];
                    let accepted = a0["result"] == json!(1000);
                    let refused = a0["error"]["code"] == json!(-32007) || a0["http_status"].as_u64().map(|s| s >= 400).unwrap_or(false);
                    if (1000 <= req) != accepted || (1000 > req) != refused {
                        why.push(format!("{entry}/{transport} limits (request {req}, response {resp}): a 1000-byte request got {a0}"));
                    }
                    // the answer of ~1000 bytes: delivered iff it fits the response limit - whatever the request limit is
                    let a1 = answers.get(1).cloned().unwrap_or(Value::Null);
                    let delivered = a1["result"].as_str().map(|s| s.len() == 1000).unwrap_or(false);
                    let too_big = a1["error"]["code"] == json!(-32008);
                    if (resp >= 3000) != delivered || (resp < 3000) != too_big {
                        why.push(format!("{entry}/{transport} limits (request {req}, response {resp}): a 1000-byte answer came back as {}", a1.to_string().chars().take(140).collect::<String>()));
                    }
                }
                let _ = handle.stop();
            }
        }
        json!({"scenario":"c08_limits_apart","observed":{},"violation":!why.is_empty(),"why":why.join(" | ")})
    })
}
