"""KNOWN_FINDINGS.txt: committed, read-only at run time.

Line formats (one per line, '#' comments):
  known: property=<ID> key=<engine:unit:detail> :: <what fails, human text>
  fixed: property=<ID> <commit> <what failed>           (suppresses nothing)
A candidate violation is suppressed only when its key equals a `known:` key of the same property.
"""
import os, re

VERIF = os.path.dirname(os.path.dirname(os.path.abspath(__file__)))
PATH = os.path.join(VERIF, "KNOWN_FINDINGS.txt")


def load(pid):
    out = []
    if not os.path.exists(PATH):
        return out
    for line in open(PATH):
        line = line.strip()
        if not line or line.startswith("#"):
            continue
        m = re.match(r"known: property=(\S+) key=(.+?) :: (.*)$", line)
        if m and m.group(1) == pid:
            out.append({"kind": "known", "key": m.group(2).strip(), "text": m.group(3).strip(), "raw": line})
            continue
        m = re.match(r"fixed: property=(\S+) (.*)$", line)
        if m and m.group(1) == pid:
            out.append({"kind": "fixed", "key": None, "text": m.group(2), "raw": line})
    return out


def match(known, key):
    for k in known:
        if k["kind"] == "known" and k["key"] == key:
            return k
    return None
