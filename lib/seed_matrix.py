"""Runs the registered checks against every seeded change (apply to /repo, check, undo) and records which obligations report it.
usage: seed_matrix.py [ID-n ...]     -> /verif/seeded/MATRIX.json, /verif/seeded/MATRIX.md"""
import os, sys, subprocess, json, re, glob

VERIF = "/verif"
# where else a change to the anchored code of one property is also visible (checked only if the property's own check stays quiet)
ALSO = {"C01": ["C19", "C02"], "C03": ["C12", "C18"], "C18": ["C03", "C05"], "C07": ["C19"], "C02": ["C01"], "C05": ["C18"], "C12": ["C03"]}


def run_check(pid):
    p = subprocess.run([os.path.join(VERIF, "check"), pid], capture_output=True, text=True, timeout=3600)
    out = p.stdout + p.stderr
    viol = re.findall(r"^VIOLATION property=(\S+) replay=(\S+)\n\s+(\S+) (\S+):", out, re.M)
    inconc = re.findall(r"^INCONCLUSIVE property=\S+: (.*)$", out, re.M)
    return p.returncode, [v[3] for v in viol], inconc


def main():
    only = sys.argv[1:]
    rows = []
    subprocess.run(["git", "-C", "/repo", "checkout", "--", "."], check=True)
    for d in sorted(glob.glob(os.path.join(VERIF, "seeded", "C??-?"))):
        name = os.path.basename(d)
        if only and name not in only:
            continue
        pid = name.split("-")[0]
        patch = os.path.join(d, "patch.diff")
        a = subprocess.run(["git", "-C", "/repo", "apply", patch], capture_output=True, text=True)
        row = {"seed": name, "applies": a.returncode == 0, "caught_by": [], "exit": None}
        if a.returncode == 0:
            try:
                for cid in [pid] + ALSO.get(pid, []):
                    rc, viol, inconc = run_check(cid)
                    row.setdefault("runs", []).append({"check": cid, "exit": rc, "violations": viol, "inconclusive": inconc[:2]})
                    if rc == 1:
                        row["caught_by"].append({"check": cid, "obligations": viol})
                        break
            finally:
                subprocess.run(["git", "-C", "/repo", "checkout", "--", "."], check=True)
        rows.append(row)
        print(name, "caught by", row["caught_by"] or "NOTHING", flush=True)
    path = os.path.join(VERIF, "seeded", "MATRIX.json")
    old = json.load(open(path)) if os.path.exists(path) and only else []
    keep = [r for r in old if r["seed"] not in {x["seed"] for x in rows}]
    allrows = sorted(keep + rows, key=lambda r: r["seed"])
    json.dump(allrows, open(path, "w"), indent=1)
    with open(os.path.join(VERIF, "seeded", "MATRIX.md"), "w") as f:
        f.write("| seeded change | reported by (check: obligations, each with a native replay) |\n|---|---|\n")
        for r in allrows:
            cb = "; ".join(f"{c['check']}: " + ", ".join(c["obligations"]) for c in r["caught_by"]) or "**not reported**"
            f.write(f"| {r['seed']} | {cb} |\n")


if __name__ == "__main__":
    main()
