"""Regenerates /verif/MANIFEST.json from lib/props/*.py and lib/not_applicable.json (run by hand after editing specs)."""
import os, json, importlib, sys, glob
VERIF = os.path.dirname(os.path.dirname(os.path.abspath(__file__)))
sys.path.insert(0, os.path.join(VERIF, "lib"))
ALL = [f"C{n:02d}" for n in range(1, 21)]
na = json.load(open(os.path.join(VERIF, "lib", "not_applicable.json")))
checks = []
claimed = []
for pid in ALL:
    if not os.path.exists(os.path.join(VERIF, "lib", "props", pid + ".py")):
        continue
    spec = importlib.import_module("props." + pid)
    if getattr(spec, "DISABLED", False):
        continue
    claimed.append(pid)
    engines = []
    if getattr(spec, "MIRSYM", None): engines.append("mirsym (MIR->SMT, z3 + cvc5)")
    if getattr(spec, "KANI", None): engines.append("kani (CBMC/CaDiCaL)")
    checks.append({
        "property_id": pid,
        "quick_cmd": f"./check {pid} --tier quick",
        "thorough_cmd": f"./check {pid} --tier thorough",
        "evidence_file": f"/verif/evidence/{pid}.json",
        "replay_cmd_template": f"./check {pid} --replay {{path}}",
        "engine": " + ".join(engines),
        "level_claimed": {"category": spec.LEVEL, "text": spec.EXPLANATION + " Bounds: " + spec.BOUNDS, "design_ref": "DESIGN.md §5 " + pid},
        "level_note": "Trusted: " + "; ".join(spec.TRUSTED) + ". Outside the claim: " + "; ".join(spec.OUTSIDE) + ".",
        "technique": getattr(spec, "TECHNIQUE", "bounded symbolic execution of the compiled Rust code (Kani/CBMC, SAT) and of rustc MIR (own MIR->SMT-LIB2 executor, z3/cvc5)"),
    })
man = {
    "version": 1,
    "setup_cmd": "./setup.sh",
    "hooks": {
        "guard": "--cfg jsonrpsee_verif",
        "enable": "the native replay crate is built with RUSTFLAGS='--cfg jsonrpsee_verif' (mirsym/nativereplay.py); nothing else uses the hooks",
        "baseline_off_cmd": "cd /repo && cargo nextest run --workspace --no-fail-fast --tool-config-file pb:/w/lib/nextest.toml --profile pb --test-threads 8 --offline",
        "source_commits": json.load(open(os.path.join(VERIF, "lib", "hook_commits.json"))),
        "add_only": True,
    },
    "engines": [
        {"name": "kani", "path": "/verif/kani", "serves_properties": [c["property_id"] for c in checks if "kani" in c["engine"]],
         "kind_free_text": "Kani 0.68 proof harnesses over the real crates (path deps on /repo), decided by CBMC 6.11 + CaDiCaL with unwinding assertions"},
        {"name": "mirsym", "path": "/verif/mirsym", "serves_properties": [c["property_id"] for c in checks if "mirsym" in c["engine"]],
         "kind_free_text": "own bounded symbolic executor over rustc's MIR dump of /repo (regenerated per run), obligations discharged by z3, cross-checked with cvc5"},
    ],
    "checks": checks,
    "not_applicable": [x for x in na if x["property_id"] not in claimed],
    "notes": "exit codes: 0 held / 1 reproduced unlisted violation / 2 inconclusive (never reported as pass). KNOWN_FINDINGS.txt is read-only at run time.",
}
json.dump(man, open(os.path.join(VERIF, "MANIFEST.json"), "w"), indent=1)
print("claimed:", claimed, "not_applicable:", [x["property_id"] for x in man["not_applicable"]])
