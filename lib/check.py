"""/verif/check driver. See DESIGN.md §3.

exit 0  property held on everything explored (known findings, if any, are printed as KNOWN-FINDING lines)
exit 1  a reproduced violation that KNOWN_FINDINGS.txt does not list: prints VIOLATION property=<id> replay=<path>
exit 2  inconclusive (timeout, OOM, build error, solver error, a model that does not replay, vacuous harness)
"""
import sys, os, time, json, argparse, importlib, traceback

VERIF = os.path.dirname(os.path.dirname(os.path.abspath(__file__)))
sys.path.insert(0, os.path.join(VERIF, "lib"))
sys.path.insert(0, VERIF)

import kanirun, findings  # noqa: E402


def log(*a):
    print(*a, flush=True)


def main():
    ap = argparse.ArgumentParser()
    ap.add_argument("prop")
    ap.add_argument("--tier", default=os.environ.get("VERIF_TIER", "quick"), choices=["quick", "thorough"])
    ap.add_argument("--replay", default=None)
    ap.add_argument("--only", default=None, help="debug: only harnesses/obligations whose name contains this")
    ap.add_argument("--jobs", type=int, default=int(os.environ.get("VERIF_JOBS", "12")))
    args = ap.parse_args()
    seed = int(os.environ.get("VERIF_SEED", "0") or 0)
    pid = args.prop
    spec = importlib.import_module(f"props.{pid}")
    if args.replay:
        return replay_cmd(pid, spec, args.replay)
    t0 = time.time()
    os.makedirs(os.path.join(VERIF, "evidence", "cex"), exist_ok=True)
    os.makedirs(os.path.join(kanirun.WORK, pid), exist_ok=True)
    known = findings.load(pid)

    items = []          # every decided/undecided unit: dict(engine,name,status,detail,seconds,...)
    candidates = []     # candidate violations: dict(key, engine, name, detail, replay())
    inconclusive = []

    # ---------------- engine A: MIR -> SMT obligations ----------------
    mir_info = {}
    if getattr(spec, "MIRSYM", None):
        import mirsym.run as mrun
        try:
            obs, mir_info = mrun.run_property(pid, spec, args.tier, seed, only=args.only)
        except Exception as e:  # encoder failure is never a pass
            traceback.print_exc()
            obs, mir_info = [], {"error": repr(e)}
            inconclusive.append(f"mirsym crashed: {e!r}")
        for o in obs:
            items.append(o)
            if o["status"] == "violated":
                candidates.append(o)
            elif o["status"] == "violated-duplicate":
                pass   # same finding key already reported by a smaller obligation of this run
            elif o["status"] != "discharged":
                inconclusive.append(f"mirsym {o['name']}: {o['status']} {o.get('detail','')}")

    # ---------------- engine B: Kani harnesses ----------------
    kani_cmd = ""
    hs = [h for h in getattr(spec, "KANI", []) if args.tier in h.get("tiers", ("quick", "thorough"))]
    if args.only:
        hs = [h for h in hs if args.only in h["name"]]
    if hs:
        log(f"[{pid}] kani: {len(hs)} harness(es), tier={args.tier}")
        results, logtail, kani_cmd, kwall = kanirun.run(pid, hs, jobs=args.jobs, mem_gb=getattr(spec, "KANI_MEM_GB", 14))
        for h, r in zip(hs, results):
            it = {"engine": "kani", "name": h["name"], "status": r["status"], "seconds": r.get("time_s"),
                  "bounds": h.get("bounds", ""), "desc": h.get("desc", ""),
                  "checks_total": r.get("checks_total"), "covers": f"{r.get('covers_sat')}/{r.get('covers_total')}",
                  "failed_checks": r.get("failed_checks", [])}
            log(f"[{pid}]   {h['name']}: {r['status']} ({r.get('time_s')}s, checks={r.get('checks_total')}, covers={it['covers']})")
            if r["status"] == "success":
                it["status"] = "discharged"
            elif r["status"] == "failure":
                it["status"] = "violated"
                for fc in r["failed_checks"]:
                    if "unwinding assertion" in fc["msg"]:
                        inconclusive.append(f"kani {h['name']}: unwinding bound too small")
                        continue
                    candidates.append({"engine": "kani", "name": h["name"], "status": "violated",
                                       "key": f"kani:{h['name'].split('::')[-1]}:{fc['msg']}",
                                       "detail": f"{fc['msg']} ({fc['file']}:{fc['line']})", "harness": h["name"]})
            else:
                inconclusive.append(f"kani {h['name']}: {r['status']}")
                log(r.get("raw_tail", "")[-1500:])
                if r["status"] == "build_error":
                    log(logtail)
            items.append(it)

    # ---------------- triage candidates: known / replay / violation ----------------
    violations, known_hits, replays = [], [], {}
    for c in candidates:
        k = findings.match(known, c["key"])
        if k:
            known_hits.append((c, k))
            continue
        # unlisted: must reproduce natively before it is reported
        rp = do_replay(pid, spec, c)
        replays[c["key"]] = rp
        if rp.get("reproduced"):
            violations.append((c, rp))
        else:
            inconclusive.append(f"{c['engine']} {c['name']}: counterexample did not reproduce natively ({c['key']}) - encoding or stub suspect")
            log(rp.get("log", "")[-2000:])

    seen = set()
    for c, k in known_hits:
        if k["raw"] in seen:
            continue
        seen.add(k["raw"])
        log(f"KNOWN-FINDING: property={pid} {k['text']}")
    # a listed finding that no longer shows up is only noted
    for k in known:
        if k["kind"] == "known" and k["raw"] not in seen:
            log(f"[{pid}] note: listed finding not observed in this run (tier {args.tier}): {k['key']}")

    wall = time.time() - t0
    write_evidence(pid, spec, args.tier, seed, items, violations, known_hits, inconclusive, kani_cmd, mir_info, wall)

    if violations:
        for c, rp in violations:
            log(f"VIOLATION property={pid} replay={rp['path']}")
            log(f"  {c['engine']} {c['name']}: {c.get('detail','')}")
        return 1
    if inconclusive:
        for s in inconclusive:
            log(f"INCONCLUSIVE property={pid}: {s}")
        return 2
    log(f"[{pid}] OK tier={args.tier}: {sum(1 for i in items if i['status']=='discharged')}/{len(items)} units discharged in {wall:.1f}s")
    return 0


def do_replay(pid, spec, c):
    cexdir = os.path.join(VERIF, "evidence", "cex")
    if c["engine"] == "kani":
        rp = kanirun.playback(pid, c["harness"])
        path = os.path.join(cexdir, f"{pid}-{c['harness'].split('::')[-1]}.rs")
        with open(path, "w") as f:
            f.write(f"// harness: {c['harness']}\n// failed: {c['detail']}\n// native playback (dev/release): {rp.get('profiles')}\n")
            f.write(rp.get("test_src", ""))
        rp["path"] = path
        return rp
    else:
        import mirsym.run as mrun
        return mrun.replay(pid, spec, c, cexdir)


def replay_cmd(pid, spec, path):
    txt = open(path).read()
    if path.endswith(".rs"):
        import re
        m = re.search(r"// harness: (\S+)", txt)
        rp = kanirun.playback(pid, m.group(1))
        log(rp.get("log", ""))
        if rp.get("reproduced"):
            log(f"VIOLATION property={pid} replay={path}")
            return 1
        return 0
    import mirsym.run as mrun
    return mrun.replay_file(pid, spec, path)


def write_evidence(pid, spec, tier, seed, items, violations, known_hits, inconclusive, kani_cmd, mir_info, wall):
    discharged = [i for i in items if i["status"] == "discharged"]
    nontrivial = 0
    for i in items:
        if i["engine"] == "kani":
            # non-trivial = a harness whose reachability witnesses were all satisfied (not vacuous)
            if i["status"] in ("discharged", "violated") and not i["covers"].startswith("0/") or i["status"] == "violated":
                nontrivial += 1
        else:
            if i.get("reach") == "sat":
                nontrivial += 1
    samples = []
    for i in items:
        s = {"engine": i["engine"], "name": i["name"], "status": i["status"], "bounds": i.get("bounds", ""),
             "what": i.get("desc", ""), "solver_s": i.get("seconds")}
        if i["engine"] == "kani":
            s["cbmc_checks"] = i.get("checks_total")
            s["cover_witnesses"] = i.get("covers")
        else:
            for k in ("kind", "bodies", "query", "reach", "model", "cvc5"):
                if k in i:
                    s[k] = i[k]
        samples.append(s)
    cov = {
        "evaluations": len(items),
        "distinct_nontrivial": nontrivial,
        "rule": "one evaluation = one solver-decided unit (a Kani/CBMC harness or a MIR->SMT obligation), each distinct by name; "
                "non-trivial = its reachability witness (kani::cover! / path-condition twin) was satisfiable, i.e. the assertion was reached",
        "samples": samples,
        "obligations": len(items),
        "discharged": len(discharged),
        "checker_cmd": (kani_cmd or "") + (" ; " + mir_info.get("cmd", "") if mir_info.get("cmd") else ""),
        "trusted_base": getattr(spec, "TRUSTED", []),
        "explanation": getattr(spec, "EXPLANATION", ""),
        "bounds": getattr(spec, "BOUNDS", ""),
        "outside_claim": getattr(spec, "OUTSIDE", []),
        "functions_encoded": sorted(set(mir_info.get("bodies", []) + getattr(spec, "FUNCTIONS", []))),
        "stubs": kanirun.STUBS_DOC + getattr(spec, "EXTRA_STUBS", []) if any(i["engine"] == "kani" for i in items) else [],
        "models": mir_info.get("models", []),
        "havoced": mir_info.get("havoced", []),
        "solver_seconds": round(sum((i.get("seconds") or 0) for i in items), 3),
        "mir_dump_s": mir_info.get("dump_s"),
        "translator_validation": mir_info.get("validation", {}),
        "known_findings_seen": sorted({k["key"] for _, k in known_hits}),
        "inconclusive": inconclusive,
        "exhaustive": False,
    }
    ev = {
        "property_id": pid, "tier": tier, "seed": seed, "level": getattr(spec, "LEVEL", "model_checking"),
        "coverage": cov,
        "assumptions": getattr(spec, "ASSUMPTIONS", []),
        "wall_s": round(wall, 2),
        "violations": len(violations),
    }
    path = os.path.join(VERIF, "evidence", f"{pid}.json")
    tmp = path + ".tmp"
    with open(tmp, "w") as f:
        json.dump(ev, f, indent=1)
    os.replace(tmp, path)


if __name__ == "__main__":
    sys.exit(main())
