"""Confirms seeded changes in a scratch worktree and files them under /verif/seeded/<ID>-<n>/ (patch.diff, demo/, meta.json).
usage: confirm_seeds.py <worker_index> <n_workers>      (sources: /verif/.work/seeds-in/<ID>/)
For each change: (1) patch applies to /repo HEAD and the workspace test suite passes with it (only the two no-network tests fail),
(2) the demonstration passes without the patch and fails with it."""
import os, sys, subprocess, json, re, shutil, glob, time

SRC = "/verif/.work/seeds-in"
DST = "/verif/seeded"
SUITE = ["cargo", "nextest", "run", "--offline", "--no-fail-fast", "-p", "jsonrpsee-core", "-p", "jsonrpsee-types", "-p", "jsonrpsee-server",
         "-p", "jsonrpsee-http-client", "-p", "jsonrpsee-ws-client", "-p", "jsonrpsee-integration-tests", "-p", "jsonrpsee-proc-macros", "--test-threads", "6"]
BASE_FAIL = {"https_works", "wss_works"}


def sh(cmd, cwd, env=None, timeout=3000):
    p = subprocess.run(cmd, cwd=cwd, env=env, capture_output=True, text=True, timeout=timeout)
    return p.returncode, p.stdout + p.stderr


def demo_cmds(diff_text):
    cmds = []
    for m in re.finditer(r"^\+\+\+ b/(\S+)", diff_text, re.M):
        f = m.group(1)
        stem = os.path.splitext(os.path.basename(f))[0]
        if f.startswith("tests/tests/"):
            cmds.append(["cargo", "test", "--offline", "-p", "jsonrpsee-integration-tests", "--test", stem])
        elif f.startswith("types/tests/"):
            cmds.append(["cargo", "test", "--offline", "-p", "jsonrpsee-types", "--test", stem])
        elif f.startswith("core/tests/"):
            cmds.append(["cargo", "test", "--offline", "-p", "jsonrpsee-core", "--features", "server,client,async-client,http-helpers", "--test", stem])
        elif f.startswith("server/tests/"):
            cmds.append(["cargo", "test", "--offline", "-p", "jsonrpsee-server", "--test", stem])
        elif f.startswith("server/src/tests/") and stem != "mod":
            cmds.append(["cargo", "test", "--offline", "-p", "jsonrpsee-server", "--lib", stem])
        elif f.startswith("core/src/client/async_client/") and stem != "mod":
            cmds.append(["cargo", "test", "--offline", "-p", "jsonrpsee-core", "--features", "async-client", "--lib", stem])
    return cmds


def apply(wt, path, reverse=False):
    args = ["git", "apply"] + (["-R"] if reverse else []) + [path]
    rc, out = sh(args, wt)
    if rc != 0 and not reverse:
        rc, out = sh(["patch", "-p1", "--fuzz=3", "-i", path], wt)
    return rc == 0, out


def run_demo(wt, env, cmds):
    """returns (all_passed, log)"""
    ok, logs = True, []
    for c in cmds:
        rc, out = sh(c, wt, env)
        logs.append(" ".join(c) + f" -> rc={rc}\n" + out[-1500:])
        ok &= rc == 0
    return ok, "\n".join(logs)


def main():
    w, nw = int(sys.argv[1]), int(sys.argv[2])
    only = sys.argv[3:] or None
    jobs = []
    for pid in sorted(os.listdir(SRC)):
        for n in (1, 2, 3, 4, 5, 6):
            if n <= 2 or os.path.exists(os.path.join(SRC, pid, f"patch{n}.diff")):
                jobs.append((pid, n))
    jobs = [j for i, j in enumerate(jobs) if i % nw == w]
    wt = os.environ.get("CS_WT", f"/tmp/cs-worker{w}")  # CS_WT: several single-seed runs side by side
    subprocess.run(["git", "-C", "/repo", "worktree", "remove", "--force", wt], capture_output=True)
    subprocess.run(["git", "-C", "/repo", "worktree", "add", "-q", "--detach", wt, "HEAD"], check=True)
    env = dict(os.environ, CARGO_TARGET_DIR=f"{wt}/target", CARGO_NET_OFFLINE="true")
    warm = os.environ.get("CS_PREWARM")  # a target dir built from the same HEAD: dependencies are reused, workspace crates rebuild
    if warm and os.path.isdir(warm):
        subprocess.run(["cp", "-a", warm, f"{wt}/target"], check=True)
    head = subprocess.run(["git", "-C", "/repo", "rev-parse", "--short", "HEAD"], capture_output=True, text=True).stdout.strip()
    for pid, n in jobs:
        if only and f"{pid}-{n}" not in only:
            continue
        d = os.path.join(SRC, pid)
        patch = os.path.join(d, f"patch{n}.rebased.diff")
        rebased = os.path.exists(patch)
        if not rebased:
            patch = os.path.join(d, f"patch{n}.diff")
        demo_dir = os.path.join(d, f"demo{n}")
        demo_diff = os.path.join(demo_dir, "demo.diff")
        meta = {"property": pid, "change": n, "repo_head": head, "patch_rebased_onto_fixes": rebased, "confirmed": False, "ran": []}
        t0 = time.time()
        try:
            sh(["git", "checkout", "--", "."], wt)
            sh(["git", "clean", "-fdq", "-e", "target"], wt)
            if not os.path.exists(patch) or not os.path.exists(demo_diff):
                meta["problem"] = "missing patch or demo.diff"
                raise StopIteration
            ddiff = open(demo_diff).read()
            cmds = demo_cmds(ddiff)
            ok, out = apply(wt, patch)
            meta["patch_applies"] = ok
            if not ok:
                meta["problem"] = "patch does not apply to HEAD: " + out[-300:]
                raise StopIteration
            rc, out = sh(SUITE, wt, env)
            failed = set(re.findall(r"^\s+FAIL \[[^\]]*\] \(\s*\d+/\d+\) \S+ (?:\S+::)?(\w+)$", out, re.M)) | set(re.findall(r"FAIL .*?::(\w+)\s*$", out, re.M))
            summ = re.search(r"Summary \[.*?\] (.*)", out)
            meta["suite_with_patch"] = {"summary": summ.group(1) if summ else out[-300:], "failed": sorted(failed)}
            meta["ran"].append(" ".join(SUITE))
            suite_ok = bool(summ) and failed <= BASE_FAIL
            okd, out = apply(wt, demo_diff)
            if not okd:
                meta["problem"] = "demo.diff does not apply: " + out[-300:]
                raise StopIteration
            with_ok, log_with = run_demo(wt, env, cmds)
            okr, out = apply(wt, patch, reverse=True)
            without_ok, log_without = run_demo(wt, env, cmds)
            meta["ran"] += [" ".join(c) for c in cmds]
            meta["demo_with_patch_passes"] = with_ok
            meta["demo_without_patch_passes"] = without_ok
            meta["confirmed"] = suite_ok and (not with_ok) and without_ok
            meta["demo_log_tail_with_patch"] = log_with[-600:]
        except StopIteration:
            pass
        except Exception as e:
            meta["problem"] = repr(e)
        meta["seconds"] = round(time.time() - t0)
        out_dir = os.path.join(DST, f"{pid}-{n}")
        shutil.rmtree(out_dir, ignore_errors=True)
        os.makedirs(out_dir)
        shutil.copyfile(patch, os.path.join(out_dir, "patch.diff"))
        if os.path.isdir(demo_dir):
            shutil.copytree(demo_dir, os.path.join(out_dir, "demo"))
        rd = os.path.join(d, "README.md")
        if os.path.exists(rd):
            shutil.copyfile(rd, os.path.join(out_dir, "AGENT_README.md"))
        json.dump(meta, open(os.path.join(out_dir, "meta.json"), "w"), indent=1)
        print(pid, n, "confirmed" if meta["confirmed"] else "NOT CONFIRMED", meta.get("problem", ""), meta.get("suite_with_patch", {}).get("summary"), flush=True)
    subprocess.run(["git", "-C", "/repo", "worktree", "remove", "--force", wt], capture_output=True)


if __name__ == "__main__":
    main()
