ID = "C01"
LEVEL = "model_checking"
MIRSYM = "C01"
BOUNDS = ("single-message classification for every combination of parser outcomes; prepare_error table; RpcService::call for absent / present handlers of every kind; the blocking-handler "
          "join-error arm; the WebSocket receive loop (two iterations from any resume point) and per-message task for any first non-whitespace byte; whitespace predicate for all 256 bytes; positional params: arrays of 0..2 elements with any spacing, 1..2 reads (decoder in full: C16); the response limit handed to RpcService::new on every assembly route; the WebSocket reply decision")
EXPLANATION = ("Symbolic execution of the rustc MIR of server::handle_rpc_call (single branch), core::server::helpers::prepare_error, middleware::rpc::RpcService::call, "
               "RpcModule::register_blocking_method's closures and transport::ws::background_task: z3 decides the classification tables, that every library-made reply echoes the "
               "request's own id, that no handler runs for an unbound name, and that no received WebSocket message is dropped or answered twice. The classification does not read the batch setting (native battery under Unlimited / Disabled / Limit(1)); the ParamsSequence reads a handler receives its positional params through never refuse an acceptable element, whatever the spacing. Every route builds its RPC service with the one configured response limit, so HTTP and WebSocket answer alike.")
TRUSTED = ["rustc MIR dump", "z3 / cvc5", "serde_json / serde-derive parsers (uninterpreted outcomes)", "tokio::spawn runs the task it is given"]
OUTSIDE = ["byte-level JSON scanning (serde_json)", "HTTP / WebSocket framing (hyper / soketto)", "'the connection keeps serving' under task scheduling",
           "HTTP-vs-WS equality beyond 'both call the same handle_rpc_call with the same whitespace rule'"]
ASSUMPTIONS = []
FUNCTIONS = []
KANI = []
