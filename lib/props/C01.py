ID = "C01"
LEVEL = "model_checking"
MIRSYM = "C01"
BOUNDS = ("single-message classification for every combination of parser outcomes; prepare_error table; RpcService::call for absent / present handlers of every kind; the blocking-handler "
          "join-error arm; the WebSocket receive loop (two iterations from any resume point) and per-message task for any first non-whitespace byte; whitespace predicate for all 256 bytes")
EXPLANATION = ("Symbolic execution of the rustc MIR of server::handle_rpc_call (single branch), core::server::helpers::prepare_error, middleware::rpc::RpcService::call, "
               "RpcModule::register_blocking_method's closures and transport::ws::background_task: z3 decides the classification tables, that every library-made reply echoes the "
               "request's own id, that no handler runs for an unbound name, and that no received WebSocket message is dropped or answered twice.")
TRUSTED = ["rustc MIR dump", "z3 / cvc5", "serde_json / serde-derive parsers (uninterpreted outcomes)", "tokio::spawn runs the task it is given"]
OUTSIDE = ["byte-level JSON scanning (serde_json)", "HTTP / WebSocket framing (hyper / soketto)", "'the connection keeps serving' under task scheduling",
           "HTTP-vs-WS equality beyond 'both call the same handle_rpc_call with the same whitespace rule'"]
ASSUMPTIONS = []
FUNCTIONS = []
KANI = []
