ID = "C10"
LEVEL = "model_checking"
MIRSYM = "C10"
BOUNDS = ("Server::start_inner for accept outcomes Established / Err / Shutdown in any sequence (3 visits per loop head); the connection task for connection-first / stop-first; ws::background_task "
          "from every resume point; ws::graceful_shutdown for result Ok(Stopped) / Ok(ConnectionClosed) / Err and every readiness; the per-message task for every call / sink readiness; the low-level driver serve_with_graceful_shutdown from every resume point (a select! in its body is inlined); what is awaited after graceful_shutdown() is the connection itself; try_recv for every outcome of its combined future over three loop rounds, any ping configuration")
EXPLANATION = ("Reduced claim. Symbolic execution of the MIR of the accept loop, the connection task, ws::background_task, ws::graceful_shutdown and the per-message task: z3 decides the token "
               "discipline that makes `stopped` wait - tokens are handed to every connection, dropped only after the connection future completed, pending-call tokens are released only after "
               "the answer reached the sink, the writer is stopped only after the wait for them, and the accept loop finishes only after every token is gone. The low-level connection driver finishes only with the connection's completion and polls no completed future again. The WebSocket receive step reports Stopped exactly when the stop side of its combined future completed, so that started calls are drained whatever the ping bookkeeping says.")
TRUSTED = ["rustc MIR dump", "z3 / cvc5", "tokio mpsc / oneshot / watch deliver closure and values as documented", "hyper's graceful_shutdown finishes in-flight HTTP requests before the connection future completes"]
OUTSIDE = ["every relative timing of stop(), handlers and connection tasks (schedules)", "that no call first sent after `stopped` resolved is executed (follows from the tasks having ended; not decided separately)",
           "stopping twice / dropping handles (ServerHandle over a tokio watch channel)", "HTTP in-flight requests inside hyper"]
ASSUMPTIONS = []
FUNCTIONS = []
KANI = []
