ID = "C09"
LEVEL = "model_checking"
MIRSYM = "C09"
BOUNDS = ("handle_recv_message / unparse_error for any first byte and arrays of 1..2 (quick) / 1..3 (thorough) elements whose parsers accept or reject independently and whose "
          "response ids are ANY u64; handle_frontend_messages on every message variant and resume point with every transport-send outcome; the read-error arm: every variant of the receive error; the routing step for a pending subscribe next to an active one (any ids); read_task for three loop rounds")
EXPLANATION = ("Symbolic execution of the rustc MIR (overflow checks on) of the client's receive path and of the send handler: every rustc overflow assertion, unwrap/expect, "
               "unreachable! and modelled char-boundary panic is a proof obligation for arbitrary peer-controlled numbers; a failed send must surface as Err on every path, and a failed read stores its cause for every waiting caller. A pending subscribe's channel is completed whatever id the server answers with. read_task stops cleanly only on the closing of the channel it reports its outcome on (never the queue to the send task, which is closed before a send failure is reported).")
TRUSTED = ["rustc MIR dump", "z3 / cvc5", "serde_json parsers (uninterpreted)", "handlers process_* are covered by C03/C05/C12 and are recorded calls here"]
OUTSIDE = ["which error a racing caller observes / is_connected / timeouts (task interleavings of tokio)", "send_task closes the front-end queue before the cause is stored (observation only: a race)",
           "read_task / send_task select! loops and wait_for_shutdown (tokio scheduling)"]
ASSUMPTIONS = []
FUNCTIONS = []
KANI = []
