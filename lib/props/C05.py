ID = "C05"
LEVEL = "model_checking"
MIRSYM = "C05"
BOUNDS = ("one push / method-notification / unsubscribe step from tables built by real operations with <= 2 (quick) / 3 (thorough) items, ids any pairwise-different u64, "
          "server-chosen subscription ids arbitrary, channel outcome (delivered / full / closed) solver-chosen; arrays of 1..2 (quick) / 1..3 (thorough) elements with every "
          "parser outcome; Subscription::close_reason for every (lagged, closed); every path of Subscription::unsubscribe; read_task with 2 follow-up messages from every resume point; the routing step from a table with an active subscription and a pending subscribe whose answer carries any subscription id (also the one in use)")
EXPLANATION = ("Symbolic execution of the rustc MIR of process_subscription_response, SubscriptionSender::send, process_notification, build_unsubscribe_message and "
               "handle_recv_message: z3 decides that a notification reaches exactly the channel of the subscription it names, that full/closed channels trigger exactly one "
               "unsubscribe naming that id, and that array elements are each classified from their own text and never skipped; close_reason reports Lagged whenever the subscription lagged; the explicit unsubscribe awaits queue capacity (send, never try_send) exactly once. Follow-up messages of the receive path await queue capacity instead of being dropped when the queue is full. A subscribe answered with a subscription id already in use does not take over the earlier subscription (reverse index invariant, shared with C03).")
TRUSTED = ["rustc MIR dump", "z3 / cvc5", "HashMap / tokio mpsc try_send / Vec contracts (coverage.models)", "serde_json parsers (uninterpreted)"]
OUTSIDE = ["which of drop-time try_send and a racing queue slot wins (tokio channel race; the later-notification path is covered)", "stream polling order inside tokio's mpsc", "the subscribe/close life cycle (C18)"]
ASSUMPTIONS = []
FUNCTIONS = []
KANI = []
