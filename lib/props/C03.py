ID = "C03"
LEVEL = "model_checking"
MIRSYM = "C03"
BOUNDS = ("one routing step (process_single_response) with a response id that is ANY u64, from every table built by real operations out of <= 2 (quick) / <= 3 (thorough) "
          "items over {pending call, pending subscription, active subscription}, all request ids any pairwise-different u64; generate_batch_id_range for all u64 x u64; "
          "insert-before-send order on every path of handle_frontend_messages; array frames of 2 (quick) / 2..3 (thorough) elements of every kind: none skipped; batch_request front end with 2 (quick) / 2..3 (thorough) entries: entry i decoded from element i; the id manager for any counter value and batch length (ids of a batch are not handed out again); back-end batch cases n=2..3 x replies 2..3; the same routing step with a response id that is any text or null against numeric pending ids (tables of <= 2 entries)")
EXPLANATION = ("Symbolic execution of the rustc MIR of the client's request table (manager.rs), process_single_response and handle_frontend_messages: one step from any "
               "reachable table state makes arrival order irrelevant; z3 decides that a response completes exactly the call registered under its id, with that very response; responses sharing an array frame with notifications are all handed on, and the entries of a batch (calls too) are not re-ordered after the back end matched them by id. A response whose id is of another kind (the text '7' for the id 7, or null) completes nothing. The premise that ids in flight are pairwise different is decided for batches too.")
TRUSTED = ["rustc MIR dump", "z3 / cvc5", "HashMap / oneshot contracts (coverage.models)"]
OUTSIDE = ["schedules of front-end futures vs background tasks (tokio)", "timeouts", "clients configured for text ids (the table code is generic in the key; keys are compared structurally; a text / null *response* id against numeric pending ids is inside)"]
ASSUMPTIONS = ["single-call ids handed out by the id manager are pairwise different (a counter); for batches this is decided: kernel:ws:batch-ids-not-handed-out-again"]
FUNCTIONS = []
KANI = []
