ID = "C12"
LEVEL = "model_checking"
MIRSYM = "C12"
BOUNDS = ("WS client: pending batch of n in {1,2,3} over ids start..start+n with start ANY u64, answered by k in 0..4 responses whose ids are ANY u64 "
          "(duplicates, foreign ids, omissions, any order); HTTP client: slot arithmetic for all u64 ids, result sizing for all reply lengths <= 3; async client front end: 2..3 (quick) / 1..4 (thorough) delivered entries, each success/error, decodable or not; the id manager for any counter value and batch length; reply ranges not equal to the batch's; success / failure counts vs entries (HTTP client and async front end)")
EXPLANATION = ("Symbolic execution of the rustc MIR of process_batch_response (and the request-table code it calls) with the reply ids as 64-bit symbols: "
               "z3 decides that a completed batch always has exactly n entries and entry i is the reply with id start+i or the placeholder; "
               "the HTTP client's batch_request coroutine is executed from its post-await state with symbolic reply ids; the async client front end must hand on the delivered entries in the order delivered. A batch's ids are reserved: a short reply can never be taken for the reply to another batch in flight. Counts describe the entries handed back; a reply whose id range is not the batch's finds no batch.")
TRUSTED = ["rustc MIR dump", "z3 / cvc5", "Vec / Range / HashMap / oneshot contracts listed under coverage.models"]
OUTSIDE = ["HTTP transport and JSON parsing of the reply (serde_json)", "interleaving of several batches in flight (id allocation: C03)"]
ASSUMPTIONS = ["generate_batch_id_range has refused ranges that overflow u64 (checked as its own kernel obligation)"]
FUNCTIONS = []
KANI = []
