ID = "C13"
LEVEL = "model_checking"
MIRSYM = "C13"
BOUNDS = ("one operation (register method / async / blocking / subscription / subscription_raw / alias / remove / merge / clone-then-mutate) from a registry built by "
          "0..2 successful registrations; every method name involved is an arbitrary text - equal to or different from any other name, solver-chosen")
EXPLANATION = ("Symbolic execution of the rustc MIR of rpc_module.rs (Methods::{verify_method_name,verify_and_insert,mut_callbacks,merge,method_with_name}, "
               "RpcModule::register_*/register_alias/remove_method/clone) with the callbacks table as an association list behind a copy-on-write Arc; z3 decides "
               "that a module clone and its original answer lookups identically until one is mutated and independently afterwards, that a failing operation leaves every binding as it was, a succeeding one adds exactly the named bindings to the given handler, and dispatch reads the binding.")
TRUSTED = ["rustc MIR dump", "z3 / cvc5", "HashMap / Arc::make_mut contracts (coverage.models)"]
OUTSIDE = ["running async / subscription callbacks", "the Subscribers table shared between module clones"]
ASSUMPTIONS = []
FUNCTIONS = []
KANI = []
