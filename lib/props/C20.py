ID = "C20"
LEVEL = "model_checking"
MIRSYM = "C20"
BOUNDS = ("scripts of 0..3 (quick) / 0..5 (thorough) inserts into ArrayParams and ObjectParams, every insert's serialisation succeeding or failing "
          "(with empty or non-empty partial output) as the solver chooses; all 16 tuple impls; Kani: one insert of any u8 / bool at byte level; whole-value impls (map, slice, vector, array, tuples) for success / failure of the serialisation")
EXPLANATION = ("Symbolic execution of the rustc MIR of ParamsBuilder::{maybe_initialize,insert,insert_named,build} and the ArrayParams/ObjectParams wrappers "
               "over insert scripts, with the byte buffer abstracted to a segment list and serde_json::to_writer as a contract (ok => complete JSON text, "
               "else arbitrary prefix + Err); z3 decides that the built text is exactly open + successful values + close, cvc5 cross-checks; "
               "violating scripts are replayed against the real builders. Sequences and maps are serialised as the one JSON value they are (an empty slice is [], not 'no params').")
TRUSTED = ["rustc MIR dump", "z3 / cvc5", "serde_json::to_writer contract as stated in coverage.models", "serde's tuple Serialize impls"]
OUTSIDE = ["serde_json::to_writer itself ('parses back' is replaced by: the text is the bracketed, comma-joined concatenation of serde_json's own output per value)",
           "rpc_params! macro expansion (it only calls ArrayParams::insert)"]
ASSUMPTIONS = ["a complete serde_json value text is non-empty and does not end with ','"]
FUNCTIONS = []
KANI = [
    dict(name="c20::probe_c20_one_u8", timeout=300, tiers=("thorough",), bounds="one insert of any u8", desc="byte level: ArrayParams with one u8 builds (real serde_json serializer)"),
    dict(name="c20::probe_c20_one_bool", timeout=300, tiers=("thorough",), bounds="one insert of any bool", desc="byte level: '[true]' / '[false]' exactly"),
]
EXTRA_STUBS = ["serde_json::value::RawValue::from_string -> non-validating wrapper (C20 Kani harnesses compare bytes themselves)"]
