ID = "C15"
LEVEL = "model_checking"
MIRSYM = "C15"
BOUNDS = ("all 2^32 error codes (Kani); response objects of <= 4 (quick) / 5 (thorough) members over {jsonrpc, result, error, id, other} in any order / duplication with every read outcome "
          "(value / null / error) per member (MIR -> SMT); every serializer of a wire type (hand-written and derived) for every shape and failure point of a generic serializer; the two hand-written scalar readers")
EXPLANATION = ("Bounded model checking (Kani/CBMC, SAT) of the ErrorCode<->i32 mapping for every i32 and every kind; symbolic execution of the MIR of the hand-written Response "
               "visitor (visit_map and the key visitor) against a symbolic serde MapAccess: z3 decides that the parser accepts exactly the member sequences the property allows. What is written for each wire type is exactly its JSON-RPC 2.0 members from its own fields; the version is read through a string visitor and error codes as i32.")
TRUSTED = ["rustc/Kani MIR->goto translation", "CBMC 6.11 + CaDiCaL", "serde_json text<->token fidelity (tokens, not text, are symbolic)"]
OUTSIDE = ["JSON text scanning (serde_json)", "deep nesting and float precision of payloads (RawValue is copied verbatim)",
           "serialise/parse round-trips of requests, notifications, ids and subscription ids (derive-generated serde code over serde_json: no solver-reachable kernel; native battery only)"]
ASSUMPTIONS = ["ServerError(c) counts as a library-defined kind only for c that is not the code of a unit kind"]
FUNCTIONS = ["jsonrpsee_types::error::ErrorCode::code", "<ErrorCode as From<i32>>::from"]
KANI = [
    dict(name="c15::c15_code_kind_code", timeout=120, bounds="all i32", desc="forall c: ErrorCode::from(c).code() == c"),
    dict(name="c15::c15_kind_code_kind", timeout=120, bounds="7 unit kinds + ServerError(all non-reserved i32)", desc="forall kind k: ErrorCode::from(k.code()) == k"),
]
