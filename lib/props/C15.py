ID = "C15"
LEVEL = "model_checking"
BOUNDS = "all 2^32 error codes; all u64 ids; string ids <= 3 bytes; response objects of <= 4 members in any order / duplication"
EXPLANATION = ("Bounded model checking (Kani/CBMC, SAT) of jsonrpsee-types' own code: the ErrorCode<->i32 mapping for every i32 and every kind, "
               "the untagged Id/SubscriptionId (de)serialisers and the hand-written Response visitor/serialiser driven at the serde token level "
               "by symbolic member sequences.")
TRUSTED = ["rustc/Kani MIR->goto translation", "CBMC 6.11 + CaDiCaL", "serde_json text<->token fidelity (tokens, not text, are symbolic)"]
OUTSIDE = ["JSON text scanning (serde_json)", "deep nesting and float precision of payloads (RawValue is copied verbatim)"]
ASSUMPTIONS = ["ServerError(c) counts as a library-defined kind only for c that is not the code of a unit kind"]
FUNCTIONS = ["jsonrpsee_types::error::ErrorCode::code", "<ErrorCode as From<i32>>::from"]
KANI = [
    dict(name="c15::c15_code_kind_code", timeout=120, bounds="all i32", desc="forall c: ErrorCode::from(c).code() == c"),
    dict(name="c15::c15_kind_code_kind", timeout=120, bounds="7 unit kinds + ServerError(all non-reserved i32)", desc="forall kind k: ErrorCode::from(k.code()) == k"),
]
