ID = "C17"
LEVEL = "model_checking"
MIRSYM = "C17"
BOUNDS = ("the fixture family /verif/fixture17 (3 traits: namespace with '.' separator / none / default separator; 0..4 parameters; Option tails of length 0..2; array and map encoding; "
          "aliases; sync / async / blocking; subscriptions with parameters); argument values are opaque symbols: every value of the declared types; every decode outcome; fixture extended with renamed / non-canonical wire names and subscription / unsubscribe aliases")
EXPLANATION = ("rustc expands the rpc macro on the fixture crate; the MIR of the expansion (client stubs, into_rpc, every registered callback and the by-name field visitors) is executed "
               "symbolically and compared with the declarations read from the fixture's source: names, order, optionality, kinds, aliases. Together with C20 (params builders), C16 "
               "(sequence reads) and C01/C03 (transport of the call) this gives argument equality end to end; the native replay runs the same expansion through a mock client and RpcModule.")
TRUSTED = ["rustc MIR dump of the expansion", "z3 / cvc5", "serde derive for the by-name struct (field N of the visitor fills slot N)", "closure#k of into_rpc is the k-th callback in source order (rustc numbering)",
           "serde round-trip of argument values (C15/C20)"]
OUTSIDE = ["APIs outside the fixture family (generic traits, custom param types with serde attributes, more than 4 parameters)", "values travelling through the wire (C15/C20/C16)",
           "the macro's compile-time diagnostics"]
ASSUMPTIONS = []
FUNCTIONS = []
KANI = []
