ID = "C11"
LEVEL = "model_checking"
MIRSYM = "C11"
BOUNDS = ("all usize limits of the connection semaphore; the admission branch for try_acquire Some / None x upgrade or not x handshake ok / failed x protocol switches; the HTTP response future "
          "for call ready / pending; the WebSocket task for upgrade ok / failed; ws::background_task from every resume point; the service builder's guard for all limits; graceful_shutdown's wait for every receive-loop result; the limit through every builder step; the HTTP call is processed by the permit-holding future itself; try_recv's ping ticks over three loop rounds (any ping configuration, failure count below 2^62, arbitrary idle verdict per tick)")
EXPLANATION = ("Reduced claim. Symbolic execution of the MIR of ConnectionGuard, TowerServiceNoHttp::call and the futures it creates, and ws::background_task: the semaphore has exactly "
               "max_connections slots; a request without a permit gets 429 and nothing else; the acquired permit is put into this connection's state, which is handed to the task / future "
               "that serves the connection and is let go only after the HTTP call was answered / the WebSocket session shut down, or at once when nothing is served. Only a stopping server waits for a connection's running calls; the service builder sizes its guard from the configuration. A peer silent beyond the limit is counted on every tick and closed exactly at max_failures - the server-side close that frees its slot.")
TRUSTED = ["rustc MIR dump", "z3 / cvc5", "tokio Semaphore semantics as modelled (a counter)", "Rust drops a future's captured state when the future is dropped (abort, peer reset)"]
OUTSIDE = ["that connection tasks actually end on peer reset / abort / server-side close, and when tokio runs them (schedules, hyper)", "the instantaneous count of served connections under concurrency",
           "low-level API users who build ConnectionState themselves"]
ASSUMPTIONS = []
FUNCTIONS = []
KANI = []
