ID = "C04"
LEVEL = "model_checking"
MIRSYM = "C04"
BOUNDS = ("every path of the notification builders; SubscriptionSink::{send,send_timeout,try_send} for closed / open from every resume point; accept() for every outcome of the queue hand-over; "
          "the closing task for try_join Ok / Err / pending x closing value kinds; the acceptance signal for every answer kind; SubscriptionSink::is_closed for connection closed x unsubscribed; into_rpc of the fixture traits with subscriptions (every path)")
EXPLANATION = ("Reduced claim. Symbolic execution of the MIR of the notification builders, the three send flavours, accept(), the per-subscription closing task and the acceptance signal: "
               "z3 decides that whatever is queued for a subscription is built from that subscription's own id and method name, that nothing is queued once the sink reports closed, that a sink "
               "only exists after the accepting response was queued, and that a closing notification is sent at most once and only for an accepted subscription whose handler finished. The sink reports closed exactly when its connection is gone or it was unsubscribed. A macro-generated server registers each subscription with its declared notification name (default: the subscribe name) - the registration obligation shared with C17.")
TRUSTED = ["rustc MIR dump", "z3 / cvc5", "tokio mpsc is FIFO and the connection has a single writer task (C01 decides the writer loop's per-message handling)", "serde serialisation of the notification object"]
OUTSIDE = ["every interleaving of handler sends, unsubscribe calls, disconnects and server stop (task schedules): e.g. a send racing with an unsubscribe", "messages pre-built by the handler (SubscriptionMessage::new with its own id / method)",
           "the writer task draining the queue in order (tokio + soketto)"]
ASSUMPTIONS = []
FUNCTIONS = []
KANI = []
