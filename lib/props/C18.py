ID = "C18"
LEVEL = "model_checking"
MIRSYM = "C18"
BOUNDS = ("life cycles: call / refused subscribe / server-closed subscription / unsubscribe+ack / subscribe-future dropped then ack, alone and in pairs "
          "(quick: 8 sequences, thorough: all 30 ordered pairs), request ids = any pairwise-different u64, every parse / channel outcome solver-chosen; abandoned-then-notified and lagging-then-notified subscriptions; refusals by non-id success answers")
EXPLANATION = ("Symbolic execution of the rustc MIR of manager.rs and helpers.rs (insert_pending_*, process_single_response, process_subscription_close_response, "
               "build_unsubscribe_message, ...) from the empty table through complete life cycles, HashMap abstracted to an association list with solver-decided key "
               "equality; z3 decides whether any entry can remain, per residue role; residues are replayed with a real client over an in-memory transport.")
TRUSTED = ["rustc MIR dump", "z3 / cvc5", "HashMap / oneshot / subscription-channel contracts listed under coverage.models",
           "the two-line glue of handle_frontend_messages' SubscriptionClosed arm is mirrored by the driver"]
OUTSIDE = ["memory beyond the four tables (channel buffers)", "drop without acknowledgement", "batches and notification handlers inside scripts (covered by C12 / C05 steps)"]
ASSUMPTIONS = ["request ids handed out by the client are pairwise different (monotonic allocator, C03)"]
FUNCTIONS = []
KANI = []
