ID = "C07"
LEVEL = "model_checking"
MIRSYM = "C07"
BOUNDS = ("all (max_request_body_size, max_response_body_size) in u32 x u32 at every assembly route (Server/TowerService WS+HTTP arms, low-level ws::connect, "
          "http::call_with_service_builder, http::call_with_service, read_body); every resume point of each coroutine body; loops unrolled 2x; the WebSocket oversize arm for every receive outcome and soketto error kind; the limit through every ServerConfigBuilder setter and server builder; every return path of response::too_large and from_template (HTTP status in 400..599)")
EXPLANATION = ("Symbolic execution of the rustc MIR of the async bodies that configure the WebSocket frame reader and the HTTP body reader: at each call that "
               "bounds an incoming message the operand term must equal zext(max_request_body_size) under every path condition (z3, cvc5 cross-check); "
               "a model is a concrete pair of limits and is replayed against a real server over TCP before it is reported. An oversize WebSocket message is answered -32007 once and the loop goes on; the configured limit survives every builder step. The response built for an oversized HTTP body carries an error status (StatusCode constant numbered from the http crate's own table).")
TRUSTED = ["rustc MIR dump (nightly) reflects the compiled code", "z3 / cvc5", "soketto enforces its own max_message_size; http_body_util::Limited enforces its limit",
           "Clone::clone / IntoFuture / Pin::new_unchecked identity contracts (coverage.models)"]
OUTSIDE = ["soketto's and hyper's own enforcement", "frames above soketto's hard 256 MiB frame limit", "which HTTP error status an oversized chunked body gets (500 vs 413 is not fixed by the statement)"]
ASSUMPTIONS = []
FUNCTIONS = []
KANI = []
