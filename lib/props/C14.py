ID = "C14"
LEVEL = "model_checking"
MIRSYM = "C14"
BOUNDS = ("port matching: all pairs over {Default, Any, Fixed(u16)}; port normalisation: all u16 x scheme default; authority agreement: all presence/parse/equality combinations; "
          "gate: all paths of HostFilter::call; HostFilterLayer::new / disable / layer on every path; every return path of response::host_not_allowed / malformed and from_template (status 403 / 400)")
EXPLANATION = ("Symbolic execution of the rustc MIR of WhitelistedHosts::recognize's port closure, default_port, Authority::inner_from_str, Authority::from_http_request and "
               "HostFilter::call with parser results as symbolic outcomes; z3 compares each with its decision table. A parsed allow list - also an empty one - always enables the filter.")
TRUSTED = ["rustc MIR dump", "z3 / cvc5", "http::Uri parsing and route_recognizer's pattern matching (uninterpreted)"]
OUTSIDE = ["soundness of wildcard host matching for every crafted Host header (route_recognizer NFA + http::Uri parser over symbolic text)",
           "mixed cells of the agreement table (one source parses, the other does not) - the statement does not fix them"]
ASSUMPTIONS = []
FUNCTIONS = []
KANI = []
