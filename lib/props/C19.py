ID = "C19"
LEVEL = "model_checking"
MIRSYM = "C19"
BOUNDS = ("read_body over 2 (quick) / 2..3 (thorough) chunks vs the same bytes as one chunk: any chunk lengths < 2^31, any leading-whitespace counts, any first bytes, "
          "Content-Length absent or any u32, limit any u32; method / content-type gate on every path; the whitespace predicate for all 256 bytes; Content-Length present (true length) vs absent; the GET-proxy middleware for configured / other paths and every method; every return path of response::method_not_allowed / unsupported_content_type and from_template (status 405 / 415)")
EXPLANATION = ("Symbolic execution of the rustc MIR of the read_body coroutine with a body abstracted to what the code observes per chunk; z3 compares the k-chunk result "
               "with the one-chunk result of the concatenation (a translation-validation style self-comparison of the real code), plus gate order obligations on "
               "transport::http::call_with_service. The answer does not depend on the presence of a Content-Length header, also at exactly the size limit. The optional GET-proxy rewrites only GET requests on configured paths. The two refusals carry 405 and 415 (StatusCode constants numbered from the http crate's own table; from_template hands its status parameter to the builder).")
TRUSTED = ["rustc MIR dump", "z3 / cvc5", "hyper's own chunk decoding; http_body_util::Limited contract; HeaderMap semantics"]
OUTSIDE = ["duplicate Content-Type headers (HeaderMap::get semantics)", "which HTTP error status an oversized body gets (413 vs 500)", "bodies that are not ready immediately (Poll::Pending scheduling)"]
ASSUMPTIONS = ["chunk lengths < 2^31"]
FUNCTIONS = []
KANI = []
