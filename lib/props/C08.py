ID = "C08"
LEVEL = "model_checking"
MIRSYM = "C08"
BOUNDS = ("accounting kernels: all 64-bit limits/lengths (lengths < 2^63); limit provenance: every value of the two size limits; "
          "byte-level boundary (Kani): ids of width 1/2/20, strings <= 6 bytes incl. escapes, limit within +-3 of the exact length")
EXPLANATION = ("Symbolic execution of rustc MIR of BoundedWriter::write and BatchResponseBuilder::{new_with_limit,append,finish} with string/vector "
               "lengths as 64-bit symbols, post-conditions discharged by z3 (cvc5 cross-check); provenance of the response limit to every callback; "
               "Kani harness over MethodResponse::response around the limit.")
TRUSTED = ["rustc MIR dump (nightly) faithfully reflects the compiled code", "z3 / cvc5", "length contracts of String/Vec/str methods (listed under coverage.models)",
           "serde_json writes exactly the bytes it hands to the io::Write it is given"]
OUTSIDE = ["the fixed 'too big' error object itself may exceed tiny limits (the property exempts it)",
           "subscription accept replies are bounded by the sink's own limit (reported as observation)"]
ASSUMPTIONS = ["buffer lengths are < 2^63 (Rust allocation limit)"]
FUNCTIONS = []
KANI = []
