ID = "C08"
LEVEL = "model_checking"
MIRSYM = "C08"
BOUNDS = ("accounting kernels (BoundedWriter::write, BatchResponseBuilder::append): all 64-bit limits/lengths (lengths < 2^63); every path of MethodResponse::response: success and "
          "error payloads alike are serialised into the bounded writer; BatchResponseBuilder new_with_limit..append*..finish end to end for 0..2 appended responses of any length; "
          "limit provenance: every value of the two size limits; RpcService::new and the soketto size setters on every route")
EXPLANATION = ("Symbolic execution of rustc MIR of BoundedWriter::write, BatchResponseBuilder::{new_with_limit,append,finish} and MethodResponse::response with string/vector "
               "lengths as 64-bit symbols, post-conditions discharged by z3 (cvc5 cross-check); provenance of the response limit to every callback and every reply "
               "through the writer that enforces it. The response limit reaches only the RPC service and the sink - never the WebSocket frame reader.")
TRUSTED = ["rustc MIR dump (nightly) faithfully reflects the compiled code", "z3 / cvc5", "length contracts of String/Vec/str methods (listed under coverage.models)",
           "serde_json writes exactly the bytes it hands to the io::Write it is given"]
OUTSIDE = ["the fixed 'too big' error object itself may exceed tiny limits (the property exempts it)",
           "subscription accept replies are bounded by the sink's own limit (reported as observation)"]
ASSUMPTIONS = ["buffer lengths are < 2^63 (Rust allocation limit)"]
FUNCTIONS = []
KANI = []
