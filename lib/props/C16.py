ID = "C16"
LEVEL = "model_checking"
MIRSYM = "C16"
BOUNDS = ("params arrays of 0..2 (quick) / 0..3 (thorough) elements and absent params; every interior whitespace run and element length symbolic up to 2^20 bytes; every sequence of "
          "1..3 / 1..4 reads over {next, optional_next}; every accept/reject choice of each read for each element; every element null or not, reads typed Option<T> or T")
EXPLANATION = ("The MIR of Params::sequence and ParamsSequence::{next_inner,next,optional_next} is executed symbolically over an abstract params text (layout of a JSON array with "
               "symbolic whitespace runs and element lengths; &str values are suffixes of it). serde_json's stream deserializer is replaced by its contract on that layout. z3 decides, "
               "for every read of every read sequence, that the outcome is the one a plain parse of the array prescribes. Null elements are consumed as 'absent' by optional reads and as values by reads whose type accepts null.")
TRUSTED = ["rustc MIR dump", "z3 / cvc5", "serde_json's StreamDeserializer contract as modelled (value parsing itself)", "str slicing / trim_start semantics as modelled"]
OUTSIDE = ["byte-level JSON scanning and typed value decoding (serde_json)", "Params::parse / Params::one beyond their being one serde_json::from_str call (native battery only)",
           "params texts that are not JSON arrays (objects / scalars take the first-byte error arm: covered as 'neither [ nor ,' only through the layout's element bytes)"]
ASSUMPTIONS = ["the params text is valid JSON (it comes out of a serde_json RawValue) and already trimmed by Params::new"]
FUNCTIONS = []
KANI = []
