ID = "C02"
LEVEL = "model_checking"
MIRSYM = "C02"
BOUNDS = ("handle_rpc_call batch branch: arrays of 0..2 (quick) / 0..3 (thorough) elements, every outcome of the three parsers per element, batch config Disabled / Limit(any u32) / "
          "Unlimited; RpcService::batch: all batches over {call, notification, invalid} up to length 2 (quick) / 3 (thorough), every append outcome; the WebSocket reply decision for every response kind; the batch setting through every builder step; the append / builder kernels for entries of any kind; every path of BatchEntryErr::into_parts")
EXPLANATION = ("Symbolic execution of the rustc MIR of server::handle_rpc_call (batch branch) and middleware::rpc::RpcService::batch: z3 decides the config gate, the length limit "
               "boundary for every u32, per-entry classification, and that exactly one response is appended per call / invalid entry and none for notifications. A notification-only batch gets no frame over WebSocket; the configured batch setting survives every builder step. The parts an invalid entry's -32600 reply is written from are the error object and the very id the entry error was built with (into_parts never looks at the id's kind).")
TRUSTED = ["rustc MIR dump", "z3 / cvc5", "serde_json / serde-derive parsers (uninterpreted outcomes)", "BatchResponseBuilder accounting (C08)"]
OUTSIDE = ["equality of a batch entry's reply with the same call sent alone (same RpcService::call invocation; handlers not re-run)",
           "a subscribe call inside a batch is answered both inside the array and directly (upstream TODO #1052) - observation"]
ASSUMPTIONS = []
FUNCTIONS = []
KANI = []
