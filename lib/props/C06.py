ID = "C06"
LEVEL = "model_checking"
MIRSYM = "C06"
BOUNDS = ("histories of <= 5 (quick) / 7 (thorough) steps over {subscribe+accept, sink clone, sink drop, own unsubscribe, connection close}, <= 2 / 3 subscriptions with <= 2 / 3 sinks "
          "each on one connection (a second connection only issues foreign unsubscribes), cap symbolic in 0..3; sub ids / connection ids symbolic and distinct; connection ids of consecutive accepts / service-builder builds; the closing task's captures and calls; the cap through every builder step; accept() failing after every prefix of its sends")
EXPLANATION = ("The real MIR of BoundedSubscriptions::{new,acquire}, PendingSubscriptionSink::accept, SubscriptionSink::{clone,is_closed,drop}, and the unsubscribe callback is executed "
               "symbolically step by step over a world built by the driver (subscriber table as association list, semaphore as counter, Arc reference counts, Rust drop glue). After every "
               "step z3 decides the bookkeeping invariants against the reference state the property prescribes; provenance obligations tie the cap and the permit to the configuration. Connections get distinct ids on both assembly routes and the closing task is no second owner of the subscription.")
TRUSTED = ["rustc MIR dump", "z3 / cvc5", "tokio Semaphore / mpsc / oneshot semantics as modelled", "Rust drop order as modelled (Drop::drop, then fields; Arc releases contents with the last handle)"]
OUTSIDE = ["task interleavings inside one step (each callback runs to completion under the table's mutex)", "the handler's own future being aborted on connection close (only its sinks' drops are modelled)",
           "more than one connection holding subscriptions at once (keys carry the connection id; only foreign unsubscribes are issued)", "PendingSubscriptionSink dropped without accept/reject"]
ASSUMPTIONS = ["the id provider hands out pairwise different subscription ids per connection", "connection ids of simultaneously open connections differ"]
FUNCTIONS = []
KANI = []
