"""Engine B driver: build the harness crate against /repo's working tree and run Kani/CBMC harnesses.

A harness result is one of
  success       - VERIFICATION:- SUCCESSFUL, every kani::cover! witness satisfied
  failure       - at least one assertion (not an unwinding assertion) failed -> candidate violation
  vacuous       - successful but a cover witness is unsatisfied/unreachable -> counts as not run
  unwind        - an unwinding assertion failed: the stated bound is too small -> inconclusive
  timeout/error - not decided -> inconclusive
Nothing but `success` is ever reported as passed.
"""
import os, re, shutil, subprocess, time, json, resource

VERIF = os.path.dirname(os.path.dirname(os.path.abspath(__file__)))
WORK = os.path.join(VERIF, ".work")
REPO = "/repo"

STUBS_DOC = [
    "alloc::fmt::format -> empty String (message texts are not the subject)",
    "tracing_core::dispatcher::get_default -> runs closure on Dispatch::none() (logging off)",
    "tracing_core::callsite::DefaultCallsite::interest -> Interest::never()",
    "std::hash::RandomState::new -> fixed keys (hash seed is not the subject)",
]


def _sync_crate(prop_id, crate="kani"):
    """Copy the harness crate to a per-property work dir; Cargo.lock comes from /repo on every run."""
    dst = os.path.join(WORK, prop_id, crate)
    os.makedirs(dst, exist_ok=True)
    src = os.path.join(VERIF, crate)
    subprocess.run(["rsync", "-a", "--delete", "--exclude", "target", "--exclude", "Cargo.lock", src + "/", dst + "/"], check=True)
    shutil.copyfile(os.path.join(REPO, "Cargo.lock"), os.path.join(dst, "Cargo.lock"))
    return dst


def _limits(mem_gb):
    def f():
        b = int(mem_gb * (1 << 30))
        resource.setrlimit(resource.RLIMIT_AS, (b, b))
        os.setsid()
    return f


def parse_result(text):
    r = {"status": "error", "failed_checks": [], "checks_total": None, "checks_failed": None,
         "covers_total": 0, "covers_sat": 0, "time_s": None}
    m = re.search(r"\*\* (\d+) of (\d+) failed", text)
    if m:
        r["checks_failed"], r["checks_total"] = int(m.group(1)), int(m.group(2))
    m = re.search(r"\*\* (\d+) of (\d+) cover properties satisfied", text)
    if m:
        r["covers_sat"], r["covers_total"] = int(m.group(1)), int(m.group(2))
    for m in re.finditer(r'Failed Checks: (.*)\n\s*File: "([^"]*)", line (\d+), in (\S+)', text):
        r["failed_checks"].append({"msg": m.group(1).strip().strip('"'), "file": m.group(2), "line": int(m.group(3)), "fn": m.group(4)})
    for m in re.finditer(r'Failed Checks: (.*)\n(?!\s*File:)', text):
        r["failed_checks"].append({"msg": m.group(1).strip().strip('"'), "file": "", "line": 0, "fn": ""})
    m = re.search(r"Verification Time: ([0-9.]+)s", text)
    if m:
        r["time_s"] = float(m.group(1))
    if "VERIFICATION:- SUCCESSFUL" in text:
        r["status"] = "success" if r["covers_sat"] == r["covers_total"] else "vacuous"
    elif "VERIFICATION:- FAILED" in text:
        msgs = [c["msg"] for c in r["failed_checks"]]
        if "CBMC timed out" in text or "timed out" in text.lower():
            r["status"] = "timeout"
        elif "Status: ERROR" in text or "CBMC failed" in text or "out of memory" in text.lower():
            r["status"] = "error"
        elif msgs and all("unwinding assertion" in x for x in msgs):
            r["status"] = "unwind"
        elif not msgs:
            r["status"] = "error"
        else:
            r["status"] = "failure"
    elif "timed out" in text.lower() or "TIMEOUT" in text:
        r["status"] = "timeout"
    return r


def run(prop_id, harnesses, jobs=8, mem_gb=14, extra_args=()):
    """harnesses: list of dict(name=<module::fn>, timeout=<s>). Returns (results, build_log_tail, cmd)."""
    crate = _sync_crate(prop_id)
    tdir = os.path.join(WORK, prop_id, "target")
    outdir = os.path.join(tdir, "result_output_dir")
    shutil.rmtree(outdir, ignore_errors=True)
    tmo = max(h["timeout"] for h in harnesses)
    cmd = ["cargo", "kani", "--target-dir", tdir, "-Z", "unstable-options", "-Z", "stubbing",
           "--harness-timeout", f"{tmo}s", "--output-into-files", "--output-format", "terse", "--exact"]
    if len(harnesses) > 1:
        cmd += ["-j", str(min(jobs, len(harnesses)))]
    for h in harnesses:
        cmd += ["--harness", h["name"]]
    cmd += list(extra_args)
    env = dict(os.environ, CARGO_NET_OFFLINE="true")
    t0 = time.time()
    log = os.path.join(WORK, prop_id, "kani.log")
    with open(log, "w") as lf:
        try:
            p = subprocess.run(cmd, cwd=crate, env=env, stdout=lf, stderr=subprocess.STDOUT,
                               preexec_fn=_limits(mem_gb), timeout=tmo * (1 + len(harnesses) // max(1, jobs)) + 900)
            rc = p.returncode
        except subprocess.TimeoutExpired:
            rc = -9
    wall = time.time() - t0
    logtxt = open(log, errors="replace").read()
    results = []
    for h in harnesses:
        f = os.path.join(outdir, h["name"])
        if os.path.exists(f):
            txt = open(f, errors="replace").read()
            r = parse_result(txt)
            r["raw_tail"] = txt[-1500:]
        else:
            r = {"status": "error", "failed_checks": [], "covers_total": 0, "covers_sat": 0, "time_s": None,
                 "raw_tail": logtxt[-3000:]}
            if "error: internal compiler error" in logtxt or "error[E" in logtxt or "error: could not compile" in logtxt:
                r["status"] = "build_error"
        r["harness"] = h["name"]
        results.append(r)
    return results, logtxt[-4000:], " ".join(cmd), wall


def playback(prop_id, harness, profile_release=True):
    """Replay a failing harness natively: ask Kani for the concrete values, add the generated unit test
    to a scratch copy of the harness crate and run it with `cargo kani playback` (dev, then release).
    Returns dict(reproduced=bool|None, test_src=str, log=str)."""
    crate = _sync_crate(prop_id, "kani")
    pb = os.path.join(WORK, prop_id, "playback")
    shutil.rmtree(pb, ignore_errors=True)
    shutil.copytree(crate, pb, ignore=shutil.ignore_patterns("target"))
    tdir = os.path.join(WORK, prop_id, "target")
    env = dict(os.environ, CARGO_NET_OFFLINE="true")
    cmd = ["cargo", "kani", "--target-dir", tdir, "-Z", "unstable-options", "-Z", "stubbing", "-Z", "concrete-playback",
           "--concrete-playback=inplace", "--exact", "--harness", harness, "--harness-timeout", "1800s"]
    p = subprocess.run(cmd, cwd=pb, env=env, capture_output=True, text=True, preexec_fn=_limits(14))
    gen_log = p.stdout[-3000:] + p.stderr[-2000:]
    # find generated test
    test_name, test_src = None, ""
    for root, _, files in os.walk(os.path.join(pb, "src")):
        for fn in files:
            s = open(os.path.join(root, fn), errors="replace").read()
            m = re.search(r"(#\[test\]\s*fn (kani_concrete_playback_\w+)\(\)\s*\{.*?\n\})", s, re.S)
            if m:
                test_src, test_name = m.group(1), m.group(2)
    if not test_name:
        return {"reproduced": None, "test_src": "", "log": "no playback test generated\n" + gen_log}
    out = {}
    logs = []
    for prof in (["dev"] + (["release"] if profile_release else [])):
        c2 = ["cargo", "kani", "playback", "-Z", "concrete-playback", "--", test_name]
        env2 = dict(env, CARGO_TARGET_DIR=os.path.join(WORK, prop_id, "pb-target-" + prof))
        if prof == "release":
            # `cargo kani playback` has no --release: give the dev profile release semantics instead
            env2.update(CARGO_PROFILE_DEV_OPT_LEVEL="3", CARGO_PROFILE_DEV_DEBUG_ASSERTIONS="false",
                        CARGO_PROFILE_DEV_OVERFLOW_CHECKS="false", CARGO_PROFILE_TEST_OPT_LEVEL="3",
                        CARGO_PROFILE_TEST_DEBUG_ASSERTIONS="false", CARGO_PROFILE_TEST_OVERFLOW_CHECKS="false")
        q = subprocess.run(c2, cwd=pb, env=env2, capture_output=True, text=True)
        txt = q.stdout[-3000:] + q.stderr[-3000:]
        ran = re.search(r"test result: (ok|FAILED)\. (\d+) passed; (\d+) failed", txt)
        failed = bool(ran and int(ran.group(3)) >= 1)
        logs.append(f"[{prof}] rc={q.returncode} ran={bool(ran)} failed={failed}\n" + txt[-1200:])
        out[prof] = failed if ran else None
    # Kani models the dev profile: the counterexample counts as reproduced when the dev replay fails
    reproduced = out.get("dev")
    return {"reproduced": reproduced, "profiles": out, "test_src": test_src, "test_name": test_name, "log": "\n".join(logs)}
